"""Extra check stages (compile stage, native fuzzing). Each stage: f(ctx, base_env)."""
STAGES = {}
