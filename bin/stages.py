"""Extra check stages (compile stage, native fuzzing). Each stage: f(ctx, base_env)."""
import glob, hashlib, json, os, re, subprocess, sys, time

ROOT = os.path.dirname(os.path.dirname(os.path.abspath(__file__)))
HARNESS = os.path.join(ROOT, "harness")


def _imp():
    import importlib
    return importlib.import_module("__main__")


def build_generator(ctx):
    m = _imp()
    genbin = os.path.join(ctx["work"].dir, "participle-gen")
    if os.path.exists(genbin):
        return genbin
    genenv = dict(m.GOENV, GOFLAGS="-mod=mod")
    rc, out = m.run(["go", "build", "-o", genbin, "."], cwd=os.path.join(m.REPO, "cmd/participle"), env=genenv, timeout=900)
    if rc != 0:
        m.inconclusive("cannot build /repo/cmd/participle (the lexer generator)", out)
    return genbin


def save_case(pid, case, message):
    data = json.dumps({"property": pid, "message": message, "sig": "", "case": case}, indent=1).encode()
    d = os.path.join(ROOT, "replays", pid)
    os.makedirs(d, exist_ok=True)
    path = os.path.join(d, ("p" if os.environ.get("VERIF_REPO") else "v") + "-%s.json" % hashlib.sha256(json.dumps(case, sort_keys=True).encode()).hexdigest()[:12])
    with open(path, "wb") as f:
        f.write(data + b"\n")
    return path


def c05_pipeline(ctx, base_env, tag, extra_env):
    """emit -> compile -> run one batch; returns nothing, appends to ctx lists."""
    m = _imp()
    pid, work = ctx["pid"], ctx["work"]
    genbin = build_generator(ctx)
    pkgdir = os.path.join(work.dir, "c05pkg")
    if os.path.isdir(pkgdir):
        import shutil
        shutil.rmtree(pkgdir)
    env = dict(base_env, VERIF_GENBIN=genbin, VERIF_SHARD=tag)
    env.update(extra_env)
    rc, out = m.run_binary(ctx["binary"], "TestC05Emit", env, [], timeout=1800)
    if rc != 0 or "EMITTED" not in out:
        ctx["inconcl"].append("C05 emit stage failed")
        m.log(out[-3000:])
        return
    if "EMITTED 0 definitions" in out:
        return
    testbin = os.path.join(work.dir, "c05-%s.test" % tag)
    rel = "./" + os.path.relpath(pkgdir, HARNESS)
    rc, out = m.run(["go", "test", "-c", "-o", testbin, rel], cwd=HARNESS, timeout=1800)
    if rc != 0:
        # "the emitted source compiles": attribute the compile error to the definition(s) named in the messages
        ids = sorted(set(int(x) for x in re.findall(r"g(\d+)_gen\.go", out)))
        try:
            defs = {d["id"]: d for d in json.load(open(os.path.join(pkgdir, "cases.json")))}
        except Exception:
            defs = {}
        if ids and ids[0] in defs:
            d = defs[ids[0]]
            msg = "the Go source emitted by the lexer generator does not compile:\n" + "\n".join(
                l for l in out.splitlines() if "g%d_gen.go" % ids[0] in l)[:1500]
            path = save_case(pid, {"rules": d["rules"], "input_hex": ""}, msg)
            m.log("  detail: " + msg.replace("\n", "\n  "))
            ctx["violations"].append("VIOLATION property=%s replay=%s" % (pid, path))
        else:
            ctx["inconcl"].append("emitted package does not compile (not attributable to a generated file)")
            m.log(out[-3000:])
        return
    pf = os.path.join(work.dir, "c05-%s.json" % tag)
    env = dict(m.GOENV)
    env.update(base_env)
    env.update({"VERIF_OUT": pf, "VERIF_SHARD": tag})
    rc, out = m.run([testbin, "-test.run", "^TestRun$", "-test.timeout", "0", "-test.v"], env=env, cwd=pkgdir,
                    timeout=ctx["tconf"].get("timeout", 1800))
    v, k, notes = m.parse_verdict_lines(out)
    m.handle_output(pid, rc, out, v, k, notes, ctx["violations"], ctx["known_lines"], ctx["inconcl"], "C05 batch " + tag)
    if os.path.exists(pf):
        ctx["partials"].append(pf)


def stage_c05(ctx, base_env):
    tconf = ctx["tconf"]
    if ctx.get("replay_file"):
        c05_pipeline(ctx, base_env, "replay", {"VERIF_C05_REPLAY": ctx["replay_file"]})
        return
    rdir = os.path.join(ROOT, "replays", ctx["pid"])
    if glob.glob(os.path.join(rdir, "*.json")):
        c05_pipeline(ctx, base_env, "replay", {"VERIF_C05_REPLAY": rdir})
    for b in range(tconf.get("batches", 1)):
        if ctx["violations"]:
            break
        env = {"VERIF_C05_DEFS": str(tconf.get("defs", 40)), "VERIF_C05_INPUTS": str(tconf.get("inputs", 150)),
               "VERIF_SEED": str(ctx["seed"] * 100 + b)}
        c05_pipeline(ctx, base_env, "b%d" % b, env)


def c14_pipeline(ctx, base_env, tag, extra_env):
    m = _imp()
    pid, work = ctx["pid"], ctx["work"]
    pkgdir = os.path.join(work.dir, "c14pkg")
    if os.path.isdir(pkgdir):
        import shutil
        shutil.rmtree(pkgdir)
    env = dict(base_env, VERIF_C14="1", VERIF_SHARD=tag)
    env.update(extra_env)
    rc, out = m.run_binary(ctx["binary"], "TestC14Emit", env, [], timeout=1800)
    if rc != 0 or "EMITTED" not in out:
        ctx["inconcl"].append("C14 emit stage failed")
        m.log(out[-3000:])
        return
    if "EMITTED 0 grammars" in out:
        return
    testbin = os.path.join(work.dir, "c14-%s.test" % tag)
    rel = "./" + os.path.relpath(pkgdir, HARNESS)
    rc, out = m.run(["go", "test", "-c", "-o", testbin, rel], cwd=HARNESS, timeout=1800)
    if rc != 0:
        ctx["inconcl"].append("emitted grammar package does not compile (harness renderer bug or /repo does not compile)")
        m.log(out[-3000:])
        return
    pf = os.path.join(work.dir, "c14-%s.json" % tag)
    env = dict(m.GOENV)
    env.update(base_env)
    env.update({"VERIF_OUT": pf, "VERIF_SHARD": tag})
    rc, out = m.run([testbin, "-test.run", "^TestRun$", "-test.timeout", "0", "-test.v"], env=env, cwd=pkgdir,
                    timeout=ctx["tconf"].get("timeout", 1800))
    v, k, notes = m.parse_verdict_lines(out)
    if rc not in (0, 1) and not v:
        cv = m.crash_violation(pid, work, tag, out)
        if cv:
            v = [cv]
    m.handle_output(pid, rc, out, v, k, notes, ctx["violations"], ctx["known_lines"], ctx["inconcl"], "C14 batch " + tag)
    if os.path.exists(pf):
        ctx["partials"].append(pf)


def stage_c14(ctx, base_env):
    tconf = ctx["tconf"]
    if ctx.get("replay_file"):
        c14_pipeline(ctx, base_env, "replay", {"VERIF_C14_REPLAY": ctx["replay_file"]})
        return
    rdir = os.path.join(ROOT, "replays", ctx["pid"])
    if glob.glob(os.path.join(rdir, "*.json")) or glob.glob(os.path.join(rdir, "known", "*.json")):
        c14_pipeline(ctx, base_env, "replay", {"VERIF_C14_REPLAY": rdir})
    for b in range(tconf.get("batches", 1)):
        if ctx["violations"]:
            break
        env = {"VERIF_C14_GRAMMARS": str(tconf.get("grammars", 150)), "VERIF_SEED": str(ctx["seed"] * 100 + b)}
        c14_pipeline(ctx, base_env, "b%d" % b, env)


def stage_fuzz(ctx, base_env):
    """bounded coverage-guided campaign (go test -fuzz) through the same property function; thorough tier only.
    Native fuzzing cannot be pinned to a seed: a saved failing input is the reproducible unit."""
    m = _imp()
    pid, work, tconf = ctx["pid"], ctx["work"], ctx["tconf"]
    fuzztime = tconf.get("fuzztime", "60s")
    rdir = os.path.join(ROOT, "replays", pid)
    pat = ("p" if os.environ.get("VERIF_REPO") else "v") + "-*.json"
    before = set(glob.glob(os.path.join(rdir, pat)))
    cache = os.path.join(work.dir, "fuzzcache")
    env = dict(m.GOENV)
    env.update(base_env)
    env.update({"VERIF_FUZZ": "1", "VERIF_SHARD": "fuzz"})
    cmd = ["go", "test", "-vet=off", "./props", "-run", "^$", "-fuzz", "^Fuzz%s$" % pid, "-fuzztime", fuzztime,
           "-test.fuzzcachedir", cache]
    t0 = time.time()
    rc, out = m.run(cmd, env=env, cwd=HARNESS, timeout=tconf.get("fuzz_timeout", 1800))
    # remove crashers that go test stored under the package (our own replay file is the reproducible unit)
    import shutil
    shutil.rmtree(os.path.join(HARNESS, "props", "testdata", "fuzz", "Fuzz" + pid), ignore_errors=True)
    execs = 0
    for mm in re.finditer(r"execs: (\d+)", out):
        execs = max(execs, int(mm.group(1)))
    new = sorted(set(glob.glob(os.path.join(rdir, pat))) - before)
    pf = os.path.join(work.dir, "fuzz.json")
    json.dump({"property_id": pid, "rule": "", "evaluations": 0, "counters": {"native_fuzz_execs": execs, "native_fuzz_seconds": int(time.time() - t0)}}, open(pf, "w"))
    ctx["partials"].append(pf)
    if new:
        for path in new[:1]:
            try:
                msg = json.load(open(path)).get("message", "")
                m.log("  detail: (native fuzzing) " + msg[:1500].replace("\n", "\n  "))
            except Exception:
                pass
            ctx["violations"].append("VIOLATION property=%s replay=%s" % (pid, path))
        for path in new[1:]:
            os.remove(path)
    elif rc != 0:
        ctx["inconcl"].append("native fuzzing ended with exit %s without a recorded case" % rc)
        m.log(out[-3000:])


def stage_c04gen(ctx, base_env):
    """C04 over generated lexers: the C05 compile pipeline with C04's validator as the only oracle."""
    tconf = ctx["tconf"]
    if ctx.get("replay_file"):
        return
    env = {"VERIF_C05_DEFS": str(tconf.get("gen_defs", 25)), "VERIF_C05_INPUTS": str(tconf.get("gen_inputs", 120)),
           "VERIF_SEED": str(ctx["seed"] * 100 + 77), "VERIF_AS_PROP": "C04"}
    c05_pipeline(ctx, dict(base_env, VERIF_AS_PROP="C04"), "c04gen", env)


def stage_c07gen(ctx, base_env):
    """C07 over generated lexers: the C05 compile pipeline with C07's totality oracle as the only oracle."""
    tconf = ctx["tconf"]
    if ctx.get("replay_file"):
        return
    env = {"VERIF_C05_DEFS": str(tconf.get("gen_defs", 25)), "VERIF_C05_INPUTS": str(tconf.get("gen_inputs", 120)),
           "VERIF_SEED": str(ctx["seed"] * 100 + 78), "VERIF_AS_PROP": "C07"}
    c05_pipeline(ctx, dict(base_env, VERIF_AS_PROP="C07"), "c07gen", env)


STAGES = {"c05": stage_c05, "c14": stage_c14, "fuzz": stage_fuzz, "c04gen": stage_c04gen, "c07gen": stage_c07gen}
