"""Per-property budgets. checks = rapid cases per shard; shards = parallel processes (rapid is single-core)."""

def tiers(qchecks, qshards, tchecks, tshards=12, qtimeout=600, ttimeout=3000, **kw):
    q = dict(checks=qchecks, shards=qshards, timeout=qtimeout)
    t = dict(checks=tchecks, shards=tshards, timeout=ttimeout)
    for k, v in kw.items():
        if k.startswith("q_"):
            q[k[2:]] = v
        elif k.startswith("t_"):
            t[k[2:]] = v
        else:
            q[k] = v
            t[k] = v
    return dict(quick=q, thorough=t)

CONF = {
    "C01": tiers(2500, 4, 60000, 12),
    "C12": tiers(20000, 2, 200000, 12),
}

HOOK_COMMITS = []
NOT_APPLICABLE = {}

META = {
    "C12": dict(
        engine="props", design_ref="3/C12",
        technique="model-based stateful property test (rapid state machine vs explicit cursor model)",
        level="Generated operation sequences over generated token streams/elision sets are stepped in lockstep with an "
              "explicit model and every observer is compared after every step; exploration, not proof: it samples the "
              "space of streams x histories (tens of thousands of sequences quick, millions thorough).",
        note="Trusts the harness's 40-line cursor model and rapid's generators; streams are <= 30 tokens over 4 types; "
             "FastForward is only called with cursors previously returned by PeekAny, Range within bounds (the documented domain)."),
}
