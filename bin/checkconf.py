"""Per-property budgets. checks = rapid cases per shard; shards = parallel processes (rapid is single-core)."""

def tiers(qchecks, qshards, tchecks, tshards=12, qtimeout=600, ttimeout=3000, **kw):
    q = dict(checks=qchecks, shards=qshards, timeout=qtimeout)
    t = dict(checks=tchecks, shards=tshards, timeout=ttimeout)
    for k, v in kw.items():
        if k.startswith("q_"):
            q[k[2:]] = v
        elif k.startswith("t_"):
            t[k[2:]] = v
        else:
            q[k] = v
            t[k] = v
    return dict(quick=q, thorough=t)

CONF = {
    "C01": tiers(2500, 4, 60000, 12, t_stages=["fuzz"], t_fuzztime="90s"),
    "C02": tiers(2500, 4, 40000, 12),
    "C03": tiers(2000, 4, 30000, 12, t_stages=["fuzz"], t_fuzztime="90s"),
    "C04": tiers(3000, 4, 40000, 12, stages=["c04gen"], t_gen_defs=150, t_gen_inputs=300),
    "C07": tiers(2500, 4, 40000, 12, q_stages=["c07gen"], t_stages=["c07gen", "fuzz"], t_fuzztime="90s", t_gen_defs=150, t_gen_inputs=300),
    "C16": tiers(1500, 4, 20000, 12),
    "C17": tiers(20000, 2, 300000, 12),
    "C18": tiers(15000, 2, 200000, 12),
    "C19": tiers(15000, 2, 300000, 12, t_stages=["fuzz"], t_fuzztime="120s"),
    "C08": tiers(4000, 4, 50000, 12),
    "C05": dict(quick=dict(checks=0, shards=0, stages=["c05"], staged_replay=True, batches=1, defs=40, inputs=150, timeout=1200, min_evaluations=100),
                thorough=dict(checks=0, shards=0, stages=["c05"], staged_replay=True, batches=8, defs=120, inputs=300, timeout=3000, min_evaluations=100)),
    "C14": dict(quick=dict(checks=0, shards=0, stages=["c14"], staged_replay=True, batches=1, grammars=200, timeout=1200, min_evaluations=50),
                thorough=dict(checks=0, shards=0, stages=["c14"], staged_replay=True, batches=10, grammars=400, timeout=3000, min_evaluations=50)),
    "C06": tiers(3000, 4, 20000, 12, qtimeout=900, t_stages=["fuzz"], t_fuzztime="120s"),
    "C15": tiers(1500, 4, 20000, 12),
    "C09": dict(race=True, quick=dict(checks=100, shards=4, timeout=900), thorough=dict(checks=1500, shards=8, timeout=3000)),
    "C10": tiers(2500, 4, 40000, 12),
    "C11": tiers(2500, 4, 40000, 12),
    "C13": tiers(1500, 4, 25000, 12),
    "C12": tiers(20000, 2, 200000, 12),
}

HOOK_COMMITS = []
NOT_APPLICABLE = {}

GRAM_NOTE = ("Trusts the harness's reference parser (gram/model.go, a ~300-line clean-room restatement of the documented "
             "semantics, itself validated by agreement with the real parser on hundreds of thousands of cases and by planted-mutation probes), "
             "the generator's domain (<=7 productions, inputs <=40 tokens over a 14-word vocabulary, three lexer profiles: a user-written lexer.Definition with positive token types, a stateful one "
             "with WS/Comment elision and the default text/scanner lexer) and rapid. Cases whose reference evaluation exceeds 20000 steps are discarded and counted, not judged.")

LEX_NOTE = ("Trusts the harness's reference lexer (lexgen/ref.go, written from the documented behaviour; it walks the user's rules without "
            "pre-expanding includes and matches with unanchored regexps accepted only at offset 0), the generator's domain (<=4 states, <=6 rules "
            "per state, patterns from a regexp-AST generator, inputs of a few dozen bytes) and rapid.")

META = {
    "C01": dict(
        engine="gram", design_ref="2, 3/C01",
        technique="differential property test: generated grammars x inputs vs reference parser (rapid)",
        level="Generated grammars (every operator, unions, recursion, typed literals, case folding, trap shapes) x lookahead ladder x "
              "AllowTrailing x sampled/mutated inputs are parsed by the real parser and by an independent reference parser; acceptance "
              "and the AST (field by field, incl. Token/[]Token fields and union member types) must agree. Exploration of a very large "
              "space: ~40k cases quick, millions thorough, with measured shares of abandoned attempts, commits at exactly k+1, typed literals.",
        note=GRAM_NOTE + " No known finding is listed for this property (F2, recorded earlier, was repaired upstream)."),
    "C02": dict(
        engine="gram", design_ref="3/C02",
        technique="property test with trap-biased grammar generator; one-directional oracle from the reference derivation (rapid)",
        level="Grammars are generated around trap shapes (captures, then a completed or half-failed sub-production, then a failing tail, inside "
              "every kind of choice point) and the AST of every accepted parse is checked to contain nothing that the accepted derivation "
              "did not capture. Exploration; the share of cases that actually pass an abandoned attempt with captures is measured (non-trivial count).",
        note=GRAM_NOTE),
    "C03": dict(
        engine="lexgen", design_ref="3/C03",
        technique="differential property test: generated rule sets x inputs vs reference stateful lexer (rapid)",
        level="Generated rule sets (Push/Pop/Return/Include, shared names, lower-case rules, overlapping patterns, back-references) x inputs "
              "walked through the state machine are lexed by the runtime lexer and an independent reference lexer; token name/text/offset and the "
              "error position must agree. Exploration with measured shares of multi-candidate offsets, includes, back-references, multi-state inputs.",
        note=LEX_NOTE + " Cases where a Pop/Return has nothing to return to, an action rule's group did not participate, or a back-referenced "
             "text is not valid UTF-8 are outside the statement and are counted and skipped."),
    "C04": dict(
        engine="lexgen", design_ref="3/C04",
        technique="property test with a validity predicate computed from the input text alone (rapid)",
        level="Stateful, simple and text/scanner-based lexers (three scanner configurations) over inputs rich in newlines, CR/LF, multi-byte and "
              "invalid UTF-8, a leading byte-order mark, long inputs, all entry points (string, bytes, readers that deliver one byte at a time / data together with EOF / have a name of their own / were partly read before, a second live lexer of the definition) and filenames; every successful token stream is validated against the input: values, "
              "offsets, order, single final EOF, concatenation, line/column recomputed from the offset, filename. Exploration.",
        note="Trusts the ~60-line validator (lexgen/validate.go) and utf8.RuneCountInString as the meaning of 'characters'. Generated lexers are "
             "covered by the compile stage of C05 (same validator)."),
    "C05": dict(
        engine="srcgen", design_ref="3/C05",
        technique="differential fuzzing through a compile stage: generated definitions -> `participle gen lexer` -> go build -> runtime vs generated lexer; possessive-matcher oracle for the documented tolerance",
        level="Batches of generated rule sets of the documented class are turned into Go source by the generator binary built from /repo, compiled, "
              "and compared with the runtime lexer on thousands of inputs walked through the state machine: generator exit status, compilation, "
              "Symbols(), (type, text, position) streams, elision, EOF, error positions, also with several lexers of one generated definition alive and drained in turns. A difference is tolerated only when an independent possessive "
              "matcher shows that no-backtracking matching of a tried rule differs from backtracking matching. Exploration (40 definitions x 150 inputs "
              "quick, ~1000 x 300 thorough).",
        note=LEX_NOTE + " Also trusts the ~150-line possessive matcher over regexp/syntax trees (lexgen/possessive.go) for the tolerance decision, "
             "and the Go toolchain for 'compiles'. The generated lexers are additionally checked with C04's validator and C07's oracle."),
    "C06": dict(
        engine="props", design_ref="3/C06",
        technique="robustness fuzzing with validity-predicate oracle: mutated sample inputs of 18 ported example grammars and a harness-owned sealed-union grammar + generated grammars and recursive systems (rapid), watchdog, crash journal, Trace-depth metamorphic relation",
        level="Every Parse/ParseString/ParseBytes call on mutated, truncated, nested, very long flat, non-UTF-8 and empty inputs must return without "
              "panic or hang with (AST, nil) or a well-formed located participle.Error (filename, offset in bounds, line/column recomputed from the "
              "offset, Error() text, UnexpectedTokenError naming the token Parser.Lex shows there, nil AST iff lexing failed). Recursion depth read "
              "from Trace must not grow with the length of flat inputs and must be linear in the nesting; 20k-120k item inputs and long runs of "
              "dropped tokens run under a 64 MiB stack limit with a crash journal. Exploration.",
        note="The example grammars are hand-ported copies (harness/fixtures) of /repo/_examples; panics raised by their own Parseable code and foreign "
             "errors are not judged. One known finding (F19, exponential backtracking of the sql example) is excluded by construction; generated "
             "grammars are gated by the reference parser's step budget for the same reason. 'Hang' = a call that has not returned after 20 s of CPU time of the checking process (200 s of wall time for a blocked call); megabyte inputs get 6x that."),
    "C09": dict(
        engine="props", design_ref="3/C09",
        technique="generated concurrent workloads compared with fresh-instance results, run under the Go race detector (rapid)",
        level="Workloads of 2-16 goroutines (after a sequential history) call ParseString (also with AllowTrailing or Trace)/ParseBytes/Parse/Lex/String/LexString on shared generated "
              "parsers, back-reference definitions (one- and two-group closers), a two-mapper parser, a parser with three all-token mappers in front of per-type mappers, the package-level ebnf parser and ported example parsers; every result, "
              "compared after all goroutines finished, must deep-equal the result of the same call on a fresh instance, the race detector must "
              "stay silent and every call must return (goroutines still blocked after 120 s are reported as a deadlock). Exploration of workloads; interleavings are whatever the Go scheduler produces.",
        note="The harness does not own the scheduler: this is evidence, not coverage, of interleavings; the race detector only sees conflicting accesses "
             "that actually occur. Objects that cannot be re-created (package-level ebnf parser, fixtures) are compared with a baseline taken before "
             "any other use. Generated lexers are not part of the workloads."),
    "C07": dict(
        engine="lexgen", design_ref="3/C07",
        technique="property test: generated hostile rule sets/inputs/call histories with a no-panic, progress and sticky-EOF oracle + watchdog (rapid)",
        level="Rule sets in which Pop/Return are reachable in the initial state, groups may not participate, back-references may name missing groups "
              "x hostile inputs x extra Next calls after EOF/error; each call runs under a recover and a 20 s watchdog. Lexers generated by "
              "`participle gen lexer` from definitions of its supported class get the same oracle in a compile stage (25 / 150 definitions). Exploration.",
        note=LEX_NOTE + " 'Terminates' is judged with a 20 s per-call watchdog (typical call: microseconds)."),
    "C14": dict(
        engine="srcgen", design_ref="3/C14",
        technique="compile-stage property test: generated grammars emitted as Go source with named types; multiset-of-items and round-trip oracles over Parser.String()",
        level="Batches of 200-400 generated grammars (every operator, unions, direct and union-mediated recursion, typed and escaped literals, embedded "
              "structs) are compiled as named Go types; Parser.String() must not panic, must parse with the ebnf package, list the root first, define "
              "every reachable production exactly once and nothing else, contain per production exactly the literals / token references / production "
              "references / operators computed independently from the IR (user-implemented productions: referenced, not defined), and survive ebnf print->parse; the text must not change after ParserForProduction was called on the parser. A second parser for the same root type with "
              "other union members is checked in the same process. Exploration.",
        note=GRAM_NOTE + " Anonymous struct productions are outside the statement ('named productions') and are not generated; grouping is compared as "
             "a multiset of items per production, not as an exact tree (the statement asks for containment and round trip)."),
    "C15": dict(
        engine="props", design_ref="3/C15",
        technique="differential property test across entry points and observational options (rapid)",
        level="For ported example parsers and generated parsers (default, stateful, mapped lexers) and valid/invalid inputs: Parse(reader) incl. one-byte "
              "and multi-part readers, ParseString, ParseBytes, ParseFromLexer over the parser's own stream must give deeply equal ASTs and identical "
              "error texts (also with AllowTrailing, and with a reader that has a Name()); Parser.Lex must equal the drained definition; Lex/LexString/LexBytes must agree, also "
              "with several lexers of one definition (the parser's, generated multi-state rule sets, text/scanner definitions with a configuration of the caller's) alive and drained in turns; Trace must not change the result; with "
              "AllowTrailing the caller's lexer must end at the first token the reference parser did not consume (fixtures: the consumed prefix must parse alone to the same AST). Exploration. Generated lexers' entry "
              "points are compared in the C05 compile stage.",
        note=GRAM_NOTE),
    "C16": dict(
        engine="lexgen", design_ref="3/C16",
        technique="round-trip + differential property test (rapid)",
        level="For generated rule sets (all action kinds, nested includes, patterns with quotes, backslashes, control characters, non-ASCII) the "
              "definition and its rule map are marshalled, unmarshalled and rebuilt; symbol tables must be equal and token streams/errors identical "
              "on generated inputs. Exploration.",
        note=LEX_NOTE),
    "C17": dict(
        engine="props", design_ref="3/C17",
        technique="differential property test against strconv (rapid)",
        level="Static grammars for 22 numeric kinds (all widths, named types incl. two pairs of identically printed local types, pointers, slices, "
              "multi-token captures, an alternative that can accept the text as a string) x generated texts (width boundaries +-1 in four bases, "
              "underscores, exponents, hex floats, Inf/NaN, junk) compared with strconv.ParseInt/ParseUint/ParseFloat; failures must be located "
              "at the first captured token and name the conversion. Exploration.",
        note="Trusts strconv as the meaning of the conversion (as the property states) and rapid. No known finding is listed (F2 was repaired upstream)."),
    "C08": dict(
        engine="gram", design_ref="3/C08",
        technique="property test against an independent left-recursion analysis (nullability fix-point + left-edge reachability) on generated recursive systems (rapid)",
        level="Generated systems of 1-4 mutually referring productions (recursion through unions) with every reference placement the statement lists, "
              "plus 16 static fixtures with direct struct recursion or recursion through a union with a user-code member, and the repository's example grammars: Build (with the root struct and with the root union as grammar type) must reject exactly the systems in which the independent analysis finds a "
              "production that re-enters itself before consuming. Accepted grammars are parsed on sampled inputs under a crash journal and their "
              "recursion depth (from the Trace output) must stay proportional to the input length. Exploration.",
        note=GRAM_NOTE + " Direct struct recursion cannot be generated with reflect.StructOf; it is covered by hand-written fixtures only."),
    "C18": dict(
        engine="props", design_ref="3/C18",
        technique="inverse/differential property test: strconv.Quote/Unquote round trip and unmapped-vs-mapped token streams (rapid)",
        level="Generated strings in every Go quoting style (incl. hand-assembled and corrupted escapes) are lexed by the default and a permissive "
              "stateful lexer under 1-3 mapper options; the mapped stream must equal the unmapped one except that selected literal tokens hold "
              "strconv.Unquote's value / selected tokens are upper-cased, positions untouched, a recording Map sees each selected non-EOF token once "
              "in order (elided ones included), rejected escapes give an error located at the token, and ParseString/ParseBytes/Parse capture the mapped values. Exploration.",
        note="Trusts strconv.Unquote as the meaning of 'unquoted value' (as the property states). Unquote applied to tokens that are not Go literals "
             "(e.g. single-quoted multi-character strings) is outside the statement and is skipped."),
    "C19": dict(
        engine="props", design_ref="3/C19",
        technique="grammar-aware fuzzing of struct tags and field types with a reference recogniser of the tag syntax (rapid)",
        level="Struct types assembled with reflect.StructOf from a pool of 28 field types plus static odd types, tagged with token soup, single-token "
              "edits of valid grammars, a stray token opening a later field, raw byte soup, valid generated grammars (incl. by-value embedding 1-4 deep) and recursive systems, in both tag forms: Build must return within the watchdog without "
              "panicking, return exactly one of parser/error, build what the reference recogniser classifies as valid and reject the listed malformed "
              "shapes. A fatal crash (stack overflow) is attributed through a case journal. Exploration.",
        note="Trusts the harness's ~150-line recogniser of the documented tag syntax; it only claims 'must build' for tags without @@ whose capture "
             "targets are simple types, and 'must be rejected' for the malformed shapes the statement lists and for any tag that names an unknown token type anywhere; everything else only has to terminate without panic."),
    "C10": dict(
        engine="gram", design_ref="3/C10",
        technique="metamorphic property test: re-spacing / re-commenting of generated inputs (rapid)",
        level="Each generated token sequence is rendered to two texts differing only in elided tokens; after confirming via Parser.Lex that the "
              "non-elided sequences are equal, acceptance and all captured fields must be equal (also for a grammar whose root production is user code). Grammars that name elided types are checked "
              "against the reference parser's PeekAny rule. Exploration over grammars x inputs x renderings x elision sets x lookahead.",
        note=GRAM_NOTE + " No known finding is listed (F2 was repaired upstream)."),
    "C11": dict(
        engine="gram", design_ref="3/C11",
        technique="property test: model-free token-run invariants + exact values from the reference derivation (rapid)",
        level="For accepted parses of generated grammars whose nodes carry Pos/EndPos/Tokens (plain, embedded, convertible type) the check "
              "verifies run contiguity, containment, sibling disjointness/order, root end, Pos<=EndPos and the exact Tokens/Pos/EndPos values "
              "computed from the reference derivation; the AST must still read the same after the parser has parsed two other inputs. Exploration.",
        note=GRAM_NOTE + " Pos/EndPos are only judged for grammars that do not name elided types (the statement's domain)."),
    "C13": dict(
        engine="gram", design_ref="3/C13",
        technique="metamorphic property test over the lookahead ladder (rapid)",
        level="Each generated (grammar without ~/lookahead groups, input) pair is parsed with 7 parsers sharing AST types and differing only in "
              "UseLookahead (0,1,2,3,5,MaxLookahead and the unlimited values -1,-2,MinInt); success at k must imply success with a deeply equal AST at every larger k'. "
              "Hand-written directly recursive grammars and one input of 10^5 items (10^5 abandoned attempts in one parse) are included. Exploration.",
        note=GRAM_NOTE),
    "C12": dict(
        engine="props", design_ref="3/C12",
        technique="model-based stateful property test (rapid state machine vs explicit cursor model)",
        level="Generated operation sequences over generated token streams/elision sets are stepped in lockstep with an "
              "explicit model and every observer is compared after every step; exploration, not proof: it samples the "
              "space of streams x histories (tens of thousands of sequences quick, millions thorough).",
        note="Trusts the harness's 40-line cursor model and rapid's generators; streams are <= 30 tokens over 10 token types (positive, negative, 64 apart) plus, "
             "once per process, streams with runs of 65535-131073 elided tokens; the elision slice passed to Upgrade is overwritten afterwards; "
             "FastForward is only called with cursors previously returned by PeekAny, Range within bounds (the documented domain)."),
}
