// Package gram is engine E1: an abstract grammar IR, its rendering to participle struct-tag
// grammars (reflect.StructOf types), a clean-room reference parser for the documented meaning
// of such grammars, input samplers and an AST comparer.
package gram

import (
	"fmt"
	"reflect"
	"strconv"
	"strings"
	"unicode/utf8"

	"github.com/alecthomas/participle/v2"
	"github.com/alecthomas/participle/v2/lexer"
)

type Kind int

const (
	KLit Kind = iota
	KRef
	KSeq
	KAlt
	KGroup
	KCap
	KSub // @@ ; Prod>=0 production, else Uni>=0 union
	KNeg
	KLook
	KPars // @@ into a field whose type implements participle.Parseable (PTok: consumes one token)
)

var kindNames = []string{"Lit", "Ref", "Seq", "Alt", "Group", "Cap", "Sub", "Neg", "Look", "Pars"}

// Expr is a node of a production's expression.
type Expr struct {
	Kind  Kind    `json:"k"`
	S     string  `json:"s,omitempty"`   // literal text
	T     string  `json:"t,omitempty"`   // token type name (reference, or literal type constraint)
	Kids  []*Expr `json:"c,omitempty"`   // children
	Mod   string  `json:"m,omitempty"`   // group modifier: "", "?", "*", "+", "!"
	Field int     `json:"f,omitempty"`   // Cap/Sub: index of the receiving field
	Prod  int     `json:"p"`             // Sub: production index or -1
	Uni   int     `json:"u"`             // Sub: union index or -1
	Neg   bool    `json:"neg,omitempty"` // Look: negative lookahead
	Style int     `json:"st,omitempty"`  // spelling choice (quotes, [ ] / { }, ! vs ~, bare modifier)
	ung   bool    // generator bookkeeping: a sequence that starts with an unguarded union reference
}

func Lit(s string) *Expr     { return &Expr{Kind: KLit, S: s, Prod: -1, Uni: -1} }
func TLit(s, t string) *Expr { return &Expr{Kind: KLit, S: s, T: t, Prod: -1, Uni: -1} }
func Ref(t string) *Expr     { return &Expr{Kind: KRef, T: t, Prod: -1, Uni: -1} }
func Seq(k ...*Expr) *Expr   { return &Expr{Kind: KSeq, Kids: k, Prod: -1, Uni: -1} }
func Alt(k ...*Expr) *Expr   { return &Expr{Kind: KAlt, Kids: k, Prod: -1, Uni: -1} }
func Group(mod string, b *Expr) *Expr {
	return &Expr{Kind: KGroup, Mod: mod, Kids: []*Expr{b}, Prod: -1, Uni: -1}
}
func Cap(b *Expr) *Expr { return &Expr{Kind: KCap, Kids: []*Expr{b}, Prod: -1, Uni: -1} }
func SubP(p int) *Expr  { return &Expr{Kind: KSub, Prod: p, Uni: -1} }
func SubU(u int) *Expr  { return &Expr{Kind: KSub, Prod: -1, Uni: u} }
func Not(b *Expr) *Expr { return &Expr{Kind: KNeg, Kids: []*Expr{b}, Prod: -1, Uni: -1} }
func Look(neg bool, b *Expr) *Expr {
	return &Expr{Kind: KLook, Neg: neg, Kids: []*Expr{b}, Prod: -1, Uni: -1}
}

// FKind is the Go type of a receiving field.
type FKind int

const (
	FStr   FKind = iota // string
	FStrs               // []string
	FBool               // bool
	FPStr               // *string
	FTok                // lexer.Token
	FToks               // []lexer.Token
	FSub                // *P
	FSubs               // []*P
	FSubV               // P
	FSubVs              // []P
	FUni                // U (interface)
	FUnis               // []U
	FNStr               // named string type
	FNBool              // named bool type
	FPBool              // *bool
	FInt                // int
	FInts               // []int
	FInt8               // int8
	FPars               // *PTok (user-implemented production)
	FParsV              // PTok
	FParss              // []PTok
	FCapt               // CapStr (implements participle.Capture)
	FCaptP              // *CapStr
	FCapts              // []CapStr
	FText               // TextStr (implements encoding.TextUnmarshaler)
	FCust               // PI: interface type whose values come from a ParseTypeWith function
	FCusts              // []PI
	FParsR              // *PTokR (user production that consumes a token and rewinds with a checkpoint when it does not like it)
	FParsN              // *PNest (user production that runs another parser over the same token stream)
)

var fkindNames = []string{"string", "[]string", "bool", "*string", "lexer.Token", "[]lexer.Token", "*P", "[]*P", "P", "[]P", "U", "[]U", "NamedString", "NamedBool", "*bool", "int", "[]int", "int8", "*PTok", "PTok", "[]PTok", "CapStr", "*CapStr", "[]CapStr", "TextStr", "PI", "[]PI", "*PTokR", "*PNest"}

func (k FKind) String() string { return fkindNames[k] }

type Field struct {
	Kind FKind `json:"kind"`
	Prod int   `json:"prod"`
	Uni  int   `json:"uni"`
}

// Prod is one production (one Go struct type).
type Prod struct {
	Fields   []Field `json:"fields"`
	Expr     *Expr   `json:"expr"`
	PosStyle int     `json:"pos_style"`       // 0 plain Pos/EndPos/Tokens, 1 embedded mixin, 2 convertible position type, 3 none, 4 own fields shadowing a mixin, 5 only EndPos, 6 only Pos, 7 only Tokens
	TagStyle int     `json:"tag_style"`       // 0 whole tag, 1 parser:"..."
	Tight    bool    `json:"tight"`           // omit optional whitespace between tag tokens
	Embed    int     `json:"embed,omitempty"` // the first Embed fields live in an embedded struct (Go source: named; StructOf: when EmbedDepth > 0)
	// StructOf rendering: the embedded struct is itself embedded EmbedDepth-1 more times by value (0: no embedding)
	EmbedDepth int `json:"embed_depth,omitempty"`
}

type Union struct {
	Members []int  `json:"members"`
	Ptr     []bool `json:"ptr"` // member registered as pointer (&P{}) instead of value (P{})
}

// Grammar is a complete generated grammar plus parser configuration.
type Grammar struct {
	Prods     []*Prod  `json:"prods"`
	Unions    []Union  `json:"unions"` // Unions[0] is the root: type Root struct{ V U0 `@@` }
	Lookahead int      `json:"lookahead"`
	CI        []string `json:"ci,omitempty"`    // case-insensitive token types
	Elide     []string `json:"elide,omitempty"` // elided token types
	// ExtraElide: names given to a further Elide() option that the lexer does not define (a misspelt option: Build
	// either rejects it or the parser works; the reference parser ignores it)
	ExtraElide []string `json:"extra_elide,omitempty"`
	Profile    string   `json:"profile,omitempty"` // lexer profile: "" stateful test lexer, "scanner" default text/scanner lexer
	// Static names a hand-written family of Go struct types (static.go) that the productions are rendered as instead
	// of reflect.StructOf types: the only way to get productions that contain themselves directly (F *Self `@@`).
	Static string `json:"static,omitempty"`
}

func (g *Grammar) IsCI(typ string) bool {
	for _, c := range g.CI {
		if c == typ {
			return true
		}
	}
	return false
}

func (g *Grammar) IsElided(typ string) bool {
	for _, c := range g.Elide {
		if c == typ {
			return true
		}
	}
	return false
}

// ---------------------------------------------------------------------------------------------
// tag rendering

type tagTok struct {
	text  string
	field int // >= 0: this token must start (or lie in) that field's tag
}

func quoteLit(e *Expr) string {
	var s string
	plain := true
	for _, r := range e.S {
		if r < 0x20 || r == 0x7f {
			plain = false
		}
	}
	switch {
	case e.Style%3 == 1 && !strings.ContainsAny(e.S, `'"`) && e.S != "" && utf8.ValidString(e.S) && (!plain || strings.Contains(e.S, `\`) || (e.Style == 4 && !isASCII(e.S))):
		// single quotes around Go escapes: '\t', 'a\\b', and (style 4) the bytes of non-ASCII text one by one: '\xc3\xa9'
		var sb strings.Builder
		for i := 0; i < len(e.S); i++ {
			switch b := e.S[i]; {
			case b == '\\':
				sb.WriteString(`\\`)
			case b < 0x20 || b == 0x7f || (b >= 0x80 && e.Style == 4):
				fmt.Fprintf(&sb, `\x%02x`, b)
			default:
				sb.WriteByte(b)
			}
		}
		s = "'" + sb.String() + "'"
	case !plain:
		s = strconv.Quote(e.S)
	case e.Style%3 == 1 && !strings.ContainsAny(e.S, `'\`) && e.S != "":
		s = "'" + e.S + "'"
	case e.Style%3 == 2 && !strings.ContainsAny(e.S, "`"):
		s = "`" + e.S + "`"
	default:
		s = strconv.Quote(e.S)
	}
	if e.T != "" {
		s += ":" + e.T
	}
	return s
}

func isLeaf(e *Expr) bool { return e.Kind == KLit || e.Kind == KRef }

func isASCII(s string) bool {
	for i := 0; i < len(s); i++ {
		if s[i] >= 0x80 {
			return false
		}
	}
	return true
}

// toks renders e as tag tokens. first: no term precedes e directly (so a leading `!` cannot be
// mistaken for the non-empty modifier of the previous term).
func (e *Expr) toks(out *[]tagTok, first bool) {
	add := func(s string) { *out = append(*out, tagTok{s, -1}) }
	switch e.Kind {
	case KLit:
		add(quoteLit(e))
	case KRef:
		add(e.T)
	case KSeq:
		for i, k := range e.Kids {
			if k.Kind == KAlt || k.Kind == KSeq {
				add("(")
				k.toks(out, true)
				add(")")
			} else {
				k.toks(out, first && i == 0)
			}
		}
	case KAlt:
		for i, k := range e.Kids {
			if i > 0 {
				add("|")
			}
			if k.Kind == KAlt {
				add("(")
				k.toks(out, true)
				add(")")
			} else {
				k.toks(out, first || i > 0)
			}
		}
	case KGroup:
		body := e.Kids[0]
		switch {
		case e.Mod == "?" && e.Style%3 == 1:
			add("[")
			body.toks(out, true)
			add("]")
		case e.Mod == "*" && e.Style%3 == 1:
			add("{")
			body.toks(out, true)
			add("}")
		case e.Mod != "" && e.Style%3 == 2 && body.Kind == KGroup && body.Style%3 == 1 && (body.Mod == "?" || body.Mod == "*"):
			// a modifier right behind a bracket group: `[ x ]+`, `{ x }!`
			body.toks(out, first)
			add(e.Mod)
		case e.Mod != "" && e.Style%3 == 2 && (isLeaf(body) || body.Kind == KSub || body.Kind == KPars || body.Kind == KCap || body.Kind == KNeg):
			// bare modifier on a single term: `@Ident?`, `"x"*`, `@@+`, `~";"*`
			body.toks(out, first)
			add(e.Mod)
		default:
			add("(")
			body.toks(out, true)
			add(")")
			if e.Mod != "" {
				add(e.Mod)
			}
		}
	case KCap:
		*out = append(*out, tagTok{"@", e.Field})
		k := e.Kids[0]
		if isLeaf(k) || (k.Kind == KNeg && isLeaf(k.Kids[0])) {
			k.toks(out, true)
		} else if e.T == "bare" && k.Kind == KGroup && k.Style%3 == 1 && (k.Mod == "?" || k.Mod == "*") {
			// a capture right in front of a bracket group: `@[ x ]`, `@{ x }` (no parentheses in between; C14-r12m1).
			// Only where a check asks for it (C14's graft, grammars that are printed and not parsed): the library
			// treats an empty match of `@[ x ]` and of `@( [ x ] )` differently, and the reference parser models the latter.
			k.toks(out, true)
		} else {
			add("(")
			k.toks(out, true)
			add(")")
		}
	case KSub, KPars:
		*out = append(*out, tagTok{"@", e.Field}, tagTok{"@", -1})
	case KNeg:
		if e.Style%2 == 1 && first {
			add("!")
		} else {
			add("~")
		}
		k := e.Kids[0]
		if isLeaf(k) {
			k.toks(out, true)
		} else {
			add("(")
			k.toks(out, true)
			add(")")
		}
	case KLook:
		add("(")
		add("?")
		if e.Neg {
			add("!")
		} else {
			add("=")
		}
		e.Kids[0].toks(out, true)
		add(")")
	}
}

func identChar(c byte) bool {
	return c == '_' || c >= 'a' && c <= 'z' || c >= 'A' && c <= 'Z' || c >= '0' && c <= '9'
}

func joinTagToks(ts []string, tight bool) string {
	var sb strings.Builder
	for i, t := range ts {
		if i > 0 {
			prev := ts[i-1]
			need := identChar(prev[len(prev)-1]) && identChar(t[0])
			if !tight || need {
				sb.WriteByte(' ')
			}
		}
		sb.WriteString(t)
	}
	return sb.String()
}

// TagTexts returns the grammar text of each field (before struct-tag quoting).
func (p *Prod) TagTexts() []string {
	var ts []tagTok
	p.Expr.toks(&ts, true)
	tags := make([]string, len(p.Fields))
	cur := 0
	var sb []string
	for _, t := range ts {
		if t.field >= 0 && t.field != cur {
			if t.field < cur {
				panic(fmt.Sprintf("gram: field order violated (%d after %d)", t.field, cur))
			}
			tags[cur] = joinTagToks(sb, p.Tight)
			sb = nil
			cur = t.field
		}
		sb = append(sb, t.text)
	}
	if len(tags) > 0 {
		tags[cur] = joinTagToks(sb, p.Tight)
	}
	return tags
}

// StructTags returns the reflect.StructTag of each field.
func (p *Prod) StructTags() []reflect.StructTag {
	texts := p.TagTexts()
	out := make([]reflect.StructTag, len(texts))
	for i, t := range texts {
		if p.TagStyle == 1 {
			out[i] = reflect.StructTag("parser:" + strconv.Quote(t))
		} else {
			out[i] = reflect.StructTag(t)
		}
	}
	return out
}

// ---------------------------------------------------------------------------------------------
// static helper types

type U0 interface{}
type U1 interface{}
type U2 interface{}
type U3 interface{}
type U4 interface{}
type U5 interface{}

// Root is the fixed entry production: the generated grammar hangs below the root union U0.
type Root struct {
	V U0 `@@`
}

// PosMixin is embedded into generated productions (PosStyle 1).
type PosMixin struct {
	Pos    lexer.Position
	EndPos lexer.Position
	Tokens []lexer.Token
}

// MyPos is a position type convertible from lexer.Position (PosStyle 2).
type MyPos lexer.Position

// PTok is a production implemented by user code (participle.Parseable): it consumes exactly one token.
type PTok struct {
	V     string
	Calls int // how often Parse ran on this value (a production gets a fresh value for every attempt)
}

// Parse implements participle.Parseable.
func (p *PTok) Parse(lex *lexer.PeekingLexer) error {
	p.Calls++
	t := lex.Peek()
	if t.EOF() {
		return participle.NextMatch
	}
	lex.Next()
	p.V = t.Value
	return nil
}

// PTokR is a user-implemented production that takes one token, but not one spelled with a "b": it consumes the
// token first and rewinds with a checkpoint (MakeCheckpoint / LoadCheckpoint) when it does not want it.
type PTokR struct {
	V     string
	Calls int
	Seen  string // the token looked at, also when it is then refused
}

// Parse implements participle.Parseable.
func (p *PTokR) Parse(lex *lexer.PeekingLexer) error {
	p.Calls++
	cp := lex.MakeCheckpoint()
	t := lex.Next()
	p.Seen += t.Value
	if t.EOF() || strings.ContainsAny(t.Value, "bB") {
		lex.LoadCheckpoint(cp)
		return participle.NextMatch
	}
	p.V = t.Value
	return nil
}

// NestInner is the grammar of the parser that PNest embeds: Ident "+" Int "+".
type NestInner struct {
	K string `@Ident "+"`
	V string `@Int "+"`
}

var nestParser = participle.MustBuild[NestInner](participle.Lexer(LexDef))

// PNest is a user-implemented production that hands the token stream to another parser (a language embedded in
// the larger grammar): ParseFromLexer with trailing input allowed. It reports "no match" when the inner parser
// fails without having consumed anything and the inner parser's error otherwise.
type PNest struct {
	V *NestInner
}

// Parse implements participle.Parseable.
func (p *PNest) Parse(lex *lexer.PeekingLexer) error {
	before := lex.Cursor()
	v, err := nestParser.ParseFromLexer(lex, participle.AllowTrailing(true))
	if err != nil {
		if lex.Cursor() == before {
			return participle.NextMatch
		}
		return err
	}
	p.V = v
	return nil
}

// nestLeaves is NestInner's grammar for the reference parser.
var nestLeaves = []*Expr{Ref("Ident"), Lit("+"), Ref("Int"), Lit("+")}

// PI is an interface type whose values are produced by a function registered with participle.ParseTypeWith
// (ParsePI); like PTok the function consumes exactly one token.
type PI interface{}

// PIVal is what ParsePI returns.
type PIVal struct {
	V string
}

// ParsePI is the custom production behind PI.
func ParsePI(lex *lexer.PeekingLexer) (PI, error) {
	t := lex.Peek()
	if t.EOF() {
		return nil, participle.NextMatch
	}
	lex.Next()
	return PIVal{V: t.Value}, nil
}

// CapStr is a field type with user-implemented capturing (participle.Capture): it records every call.
type CapStr struct {
	Calls string
}

// Capture implements participle.Capture.
func (c *CapStr) Capture(values []string) error {
	if len(values) == 0 {
		return nil
	}
	c.Calls += CapCall(values)
	return nil
}

// CapCall is how CapStr records one Capture call.
func CapCall(values []string) string { return "[" + strings.Join(values, "\x1f") + "]" }

// TextStr is a field type that implements encoding.TextUnmarshaler: it records every call.
type TextStr struct {
	S string
}

// UnmarshalText implements encoding.TextUnmarshaler.
func (t *TextStr) UnmarshalText(b []byte) error {
	t.S += "<" + string(b) + ">"
	return nil
}

type NamedString string
type NamedBool bool

var UniTypes = []reflect.Type{
	reflect.TypeOf((*U0)(nil)).Elem(), reflect.TypeOf((*U1)(nil)).Elem(), reflect.TypeOf((*U2)(nil)).Elem(),
	reflect.TypeOf((*U3)(nil)).Elem(), reflect.TypeOf((*U4)(nil)).Elem(), reflect.TypeOf((*U5)(nil)).Elem(),
}

const MaxUnions = 6

var (
	tString  = reflect.TypeOf("")
	tBool    = reflect.TypeOf(true)
	tTok     = reflect.TypeOf(lexer.Token{})
	tToks    = reflect.TypeOf([]lexer.Token{})
	tPos     = reflect.TypeOf(lexer.Position{})
	tMyPos   = reflect.TypeOf(MyPos{})
	tMixin   = reflect.TypeOf(PosMixin{})
	tNStr    = reflect.TypeOf(NamedString(""))
	tNBool   = reflect.TypeOf(NamedBool(false))
	tEmpty   = reflect.TypeOf(struct{}{})
	tInt     = reflect.TypeOf(int(0))
	tInt8    = reflect.TypeOf(int8(0))
	tPTok    = reflect.TypeOf(PTok{})
	tPI      = reflect.TypeOf((*PI)(nil)).Elem()
	tPTokR   = reflect.TypeOf(PTokR{})
	tPNest   = reflect.TypeOf(PNest{})
	tCapStr  = reflect.TypeOf(CapStr{})
	tTextStr = reflect.TypeOf(TextStr{})
)

var typeSerial uint64

// Types builds one reflect.StructOf type per production. Struct references between productions
// are acyclic by construction (recursion only goes through unions, i.e. interface types).
// Every call yields fresh, distinct types (a unique marker field defeats StructOf's interning).
func (g *Grammar) Types() []reflect.Type {
	if g.Static != "" {
		return staticTypes[g.Static]
	}
	types := make([]reflect.Type, len(g.Prods))
	typeSerial++
	var build func(i int) reflect.Type
	build = func(i int) reflect.Type {
		if types[i] != nil {
			return types[i]
		}
		p := g.Prods[i]
		tags := p.StructTags()
		var sf []reflect.StructField
		switch p.PosStyle {
		case 0:
			sf = append(sf, reflect.StructField{Name: "Pos", Type: tPos}, reflect.StructField{Name: "EndPos", Type: tPos}, reflect.StructField{Name: "Tokens", Type: tToks})
		case 1:
			sf = append(sf, reflect.StructField{Name: "PosMixin", Type: tMixin, Anonymous: true})
		case 2:
			sf = append(sf, reflect.StructField{Name: "Pos", Type: tMyPos}, reflect.StructField{Name: "EndPos", Type: tMyPos}, reflect.StructField{Name: "Tokens", Type: tToks})
		case 5:
			sf = append(sf, reflect.StructField{Name: "EndPos", Type: tPos}) // only one of the three
		case 6:
			sf = append(sf, reflect.StructField{Name: "Pos", Type: tPos})
		case 7:
			sf = append(sf, reflect.StructField{Name: "Tokens", Type: tToks})
		case 4:
			// the node's own fields shadow the same-named fields of the embedded mixin
			sf = append(sf, reflect.StructField{Name: "PosMixin", Type: tMixin, Anonymous: true},
				reflect.StructField{Name: "Pos", Type: tPos}, reflect.StructField{Name: "EndPos", Type: tPos}, reflect.StructField{Name: "Tokens", Type: tToks})
		}
		for fi, f := range p.Fields {
			var ft reflect.Type
			switch f.Kind {
			case FStr:
				ft = tString
			case FStrs:
				ft = reflect.SliceOf(tString)
			case FBool:
				ft = tBool
			case FPStr:
				ft = reflect.PtrTo(tString)
			case FTok:
				ft = tTok
			case FToks:
				ft = tToks
			case FSub:
				ft = reflect.PtrTo(build(f.Prod))
			case FSubs:
				ft = reflect.SliceOf(reflect.PtrTo(build(f.Prod)))
			case FSubV:
				ft = build(f.Prod)
			case FSubVs:
				ft = reflect.SliceOf(build(f.Prod))
			case FUni:
				ft = UniTypes[f.Uni]
			case FUnis:
				ft = reflect.SliceOf(UniTypes[f.Uni])
			case FNStr:
				ft = tNStr
			case FNBool:
				ft = tNBool
			case FPBool:
				ft = reflect.PtrTo(tBool)
			case FInt:
				ft = tInt
			case FInts:
				ft = reflect.SliceOf(tInt)
			case FInt8:
				ft = tInt8
			case FPars:
				ft = reflect.PtrTo(tPTok)
			case FParsV:
				ft = tPTok
			case FParss:
				ft = reflect.SliceOf(tPTok)
			case FCapt:
				ft = tCapStr
			case FCaptP:
				ft = reflect.PtrTo(tCapStr)
			case FCapts:
				ft = reflect.SliceOf(tCapStr)
			case FText:
				ft = tTextStr
			case FParsR:
				ft = reflect.PtrTo(tPTokR)
			case FParsN:
				ft = reflect.PtrTo(tPNest)
			case FCust:
				ft = tPI
			case FCusts:
				ft = reflect.SliceOf(tPI)
			}
			sf = append(sf, reflect.StructField{Name: fmt.Sprintf("F%d", fi), Type: ft, Tag: tags[fi]})
		}
		if p.EmbedDepth > 0 && p.Embed > 0 && p.Embed <= len(p.Fields) {
			// the leading grammar fields move into a struct embedded by value, EmbedDepth levels deep; they stay
			// the first grammar fields of the production (embedded fields are flattened in declaration order)
			at := len(sf) - len(p.Fields)
			inner := reflect.StructOf(append([]reflect.StructField(nil), sf[at:at+p.Embed]...))
			for d := 1; d < p.EmbedDepth; d++ {
				inner = reflect.StructOf([]reflect.StructField{{Name: fmt.Sprintf("E%d", d), Type: inner, Anonymous: true}})
			}
			rest := append([]reflect.StructField(nil), sf[at+p.Embed:]...)
			sf = append(sf[:at:at], reflect.StructField{Name: fmt.Sprintf("E%d", p.EmbedDepth), Type: inner, Anonymous: true})
			sf = append(sf, rest...)
		}
		sf = append(sf, reflect.StructField{Name: fmt.Sprintf("Marker%d_%d", typeSerial, i), Type: tEmpty})
		types[i] = reflect.StructOf(sf)
		return types[i]
	}
	for i := range g.Prods {
		build(i)
	}
	return types
}

// ---------------------------------------------------------------------------------------------
// description

func (g *Grammar) String() string {
	var sb strings.Builder
	fmt.Fprintf(&sb, "lexer=%s lookahead=%d ci=%v elide=%v\n", g.Prof().Name, g.Lookahead, g.CI, g.Elide)
	if len(g.ExtraElide) > 0 {
		fmt.Fprintf(&sb, "further option Elide(%q)\n", g.ExtraElide)
	}
	for i, u := range g.Unions {
		fmt.Fprintf(&sb, "U%d =", i)
		for j, m := range u.Members {
			ptr := ""
			if j < len(u.Ptr) && u.Ptr[j] {
				ptr = "&"
			}
			fmt.Fprintf(&sb, " %sP%d", ptr, m)
		}
		sb.WriteString("\n")
	}
	for i, p := range g.Prods {
		fmt.Fprintf(&sb, "P%d (pos style %d) {\n", i, p.PosStyle)
		tags := p.StructTags()
		for fi, f := range p.Fields {
			ty := f.Kind.String()
			if f.Prod >= 0 && (f.Kind >= FSub && f.Kind <= FSubVs) {
				ty = strings.Replace(ty, "P", fmt.Sprintf("P%d", f.Prod), 1)
			}
			if f.Kind == FUni || f.Kind == FUnis {
				ty = strings.Replace(ty, "U", fmt.Sprintf("U%d", f.Uni), 1)
			}
			fmt.Fprintf(&sb, "  F%d %s `%s`\n", fi, ty, tags[fi])
		}
		sb.WriteString("}\n")
	}
	return sb.String()
}

func (e *Expr) String() string {
	var ts []tagTok
	e.toks(&ts, true)
	ss := make([]string, len(ts))
	for i, t := range ts {
		ss[i] = t.text
	}
	return strings.Join(ss, " ")
}

// Walk visits e and all descendants.
func (e *Expr) Walk(f func(*Expr)) {
	f(e)
	for _, k := range e.Kids {
		k.Walk(f)
	}
}

// Size is the number of expression nodes of the grammar.
func (g *Grammar) Size() int {
	n := 0
	for _, p := range g.Prods {
		p.Expr.Walk(func(*Expr) { n++ })
	}
	return n
}

// NamesElided reports whether the grammar refers to an elided token type explicitly.
func (g *Grammar) NamesElided() bool {
	found := false
	for _, p := range g.Prods {
		p.Expr.Walk(func(e *Expr) {
			if (e.Kind == KRef || e.Kind == KLit) && e.T != "" && g.IsElided(e.T) {
				found = true
			}
			if e.Kind == KLit && e.T == "" && g.IsElided(g.Prof().TypeOfText(e.S)) {
				found = true
			}
		})
	}
	return found
}

// IsNumeric reports whether captures into the field are converted with strconv.
func (k FKind) IsNumeric() bool { return k == FInt || k == FInts || k == FInt8 }

// NumBits is the bit size used for the conversion.
func (k FKind) NumBits() int {
	if k == FInt8 {
		return 8
	}
	return strconv.IntSize
}

// NumericValues returns the values an accepted capture event stores into a numeric field, or an
// error if strconv rejects the captured text (several tokens captured at once into a scalar are
// joined first; slices convert every token separately).
func NumericValues(k FKind, vals []string) ([]int64, error) {
	if len(vals) == 0 {
		return nil, nil
	}
	if k != FInts && len(vals) > 1 {
		vals = []string{strings.Join(vals, "")}
	}
	var out []int64
	for _, v := range vals {
		n, err := strconv.ParseInt(v, 0, k.NumBits())
		if err != nil {
			return nil, err
		}
		out = append(out, n)
	}
	return out, nil
}
