package gram

import "reflect"

// Hand-written grammars whose productions contain themselves directly (a nested production of the enclosing
// production's own type shares its parse context; through a union it would run on a branch of its own). The struct
// tags and the IR below say the same thing twice; TestStaticGrammars checks that they agree.

// SR1: ( @Ident "(" @@ ")" | @Ident "(" @@ ";" | @Int )
type SR1 struct {
	F0 string `  @Ident "("`
	F1 *SR1   `  @@ ")"`
	F2 string `| @Ident "("`
	F3 *SR1   `  @@ ";"`
	F4 string `| @Int`
}

// SR2: @Ident? ( "(" @@ ")" )? ( "+" @@ "-" | "+" @@ )? @Int
type SR2 struct {
	F0 string `(@Ident)?`
	F1 *SR2   `( "(" @@ ")" )?`
	F2 []*SR2 `( "+" @@ "-"`
	F3 *SR2   `| "+" @@ )?`
	F4 string `@Int`
}

// SR3: ( @Ident @@ ";" )* @Ident* "-"   (a repetition whose last iteration completes a nested node and then fails)
type SR3 struct {
	F0 []string `( @Ident`
	F1 []SR3    `  "(" @@ ")" ";" )*`
	F2 []string `(@Ident)* ( "(" "-" ")" )? "-"`
}

var staticTypes = map[string][]reflect.Type{
	"SR1": {reflect.TypeOf(SR1{})},
	"SR2": {reflect.TypeOf(SR2{})},
	"SR3": {reflect.TypeOf(SR3{})},
}

func fld(k FKind, prod int) Field { return Field{Kind: k, Prod: prod, Uni: -1} }

func capAt(e *Expr, f int) *Expr { c := Cap(e); c.Field = f; return c }
func subAt(p, f int) *Expr       { s := SubP(p); s.Field = f; return s }

// StaticGrammars returns fresh IRs of the hand-written grammars (lookahead left at 1).
func StaticGrammars() []*Grammar {
	root := []Union{{Members: []int{0}, Ptr: []bool{false}}}
	sr1 := &Grammar{Static: "SR1", Lookahead: 1, Elide: []string{"WS"}, Unions: root, Prods: []*Prod{{PosStyle: 3,
		Fields: []Field{fld(FStr, -1), fld(FSub, 0), fld(FStr, -1), fld(FSub, 0), fld(FStr, -1)},
		Expr: Alt(
			Seq(capAt(Ref("Ident"), 0), Lit("("), subAt(0, 1), Lit(")")),
			Seq(capAt(Ref("Ident"), 2), Lit("("), subAt(0, 3), Lit(";")),
			capAt(Ref("Int"), 4)),
	}}}
	sr2 := &Grammar{Static: "SR2", Lookahead: 1, Elide: []string{"WS"}, Unions: root, Prods: []*Prod{{PosStyle: 3,
		Fields: []Field{fld(FStr, -1), fld(FSub, 0), fld(FSubs, 0), fld(FSub, 0), fld(FStr, -1)},
		Expr: Seq(
			Group("?", capAt(Ref("Ident"), 0)),
			Group("?", Seq(Lit("("), subAt(0, 1), Lit(")"))),
			Group("?", Alt(Seq(Lit("+"), subAt(0, 2), Lit("-")), Seq(Lit("+"), subAt(0, 3)))),
			capAt(Ref("Int"), 4)),
	}}}
	sr3 := &Grammar{Static: "SR3", Lookahead: 1, Elide: []string{"WS"}, Unions: root, Prods: []*Prod{{PosStyle: 3,
		Fields: []Field{fld(FStrs, -1), fld(FSubVs, 0), fld(FStrs, -1)},
		Expr: Seq(
			Group("*", Seq(capAt(Ref("Ident"), 0), Lit("("), subAt(0, 1), Lit(")"), Lit(";"))),
			Group("*", capAt(Ref("Ident"), 2)),
			Group("?", Seq(Lit("("), Lit("-"), Lit(")"))),
			Lit("-")),
	}}}
	return []*Grammar{sr1, sr2, sr3}
}

// ChainGrammar is a grammar of n productions, each of which wraps the next one between two literals
// (P_i = "a" @@P_{i+1} "z", the last one @Ident): many productions, each with text after its reference.
func ChainGrammar(n int) *Grammar {
	g := &Grammar{Lookahead: 1, Elide: []string{"WS"}, Unions: []Union{{Members: []int{0}, Ptr: []bool{false}}}}
	for i := 0; i < n; i++ {
		p := &Prod{PosStyle: 3}
		if i == n-1 {
			p.Expr = capAt(Ref("Ident"), 0)
			p.Fields = []Field{fld(FStr, -1)}
		} else {
			p.Expr = Seq(Lit("a"), subAt(i+1, 0), Group("?", Lit("z")), Lit(";"))
			p.Fields = []Field{fld(FSub, i+1)}
		}
		g.Prods = append(g.Prods, p)
	}
	return g
}
