package gram

import (
	"reflect"

	"github.com/alecthomas/participle/v2"
	"github.com/alecthomas/participle/v2/lexer"
)

// Hand-written grammars whose productions contain themselves directly (a nested production of the enclosing
// production's own type shares its parse context; through a union it would run on a branch of its own). The struct
// tags and the IR below say the same thing twice; TestStaticGrammars checks that they agree.

// SR1: ( @Ident "(" @@ ")" | @Ident "(" @@ ";" | @Int )
type SR1 struct {
	F0 string `  @Ident "("`
	F1 *SR1   `  @@ ")"`
	F2 string `| @Ident "("`
	F3 *SR1   `  @@ ";"`
	F4 string `| @Int`
}

// SR2: @Ident? ( "(" @@ ")" )? ( "+" @@ "-" | "+" @@ )? @Int
type SR2 struct {
	F0 string `(@Ident)?`
	F1 *SR2   `( "(" @@ ")" )?`
	F2 []*SR2 `( "+" @@ "-"`
	F3 *SR2   `| "+" @@ )?`
	F4 string `@Int`
}

// SR3: ( @Ident @@ ";" )* @Ident* "-"   (a repetition whose last iteration completes a nested node and then fails)
type SR3 struct {
	F0 []string `( @Ident`
	F1 []SR3    `  "(" @@ ")" ";" )*`
	F2 []string `(@Ident)* ( "(" "-" ")" )? "-"`
}

var staticTypes = map[string][]reflect.Type{
	"SR1": {reflect.TypeOf(SR1{})},
	"SR2": {reflect.TypeOf(SR2{})},
	"SR3": {reflect.TypeOf(SR3{})},
	"SR4": {reflect.TypeOf(SR4{}), reflect.TypeOf(SR4L{}), reflect.TypeOf(SR4A{})},
}

func fld(k FKind, prod int) Field { return Field{Kind: k, Prod: prod, Uni: -1} }

func capAt(e *Expr, f int) *Expr { c := Cap(e); c.Field = f; return c }
func subAt(p, f int) *Expr       { s := SubP(p); s.Field = f; return s }

// StaticGrammars returns fresh IRs of the hand-written grammars (lookahead left at 1).
func StaticGrammars() []*Grammar {
	root := []Union{{Members: []int{0}, Ptr: []bool{false}}}
	sr1 := &Grammar{Static: "SR1", Lookahead: 1, Elide: []string{"WS"}, Unions: root, Prods: []*Prod{{PosStyle: 3,
		Fields: []Field{fld(FStr, -1), fld(FSub, 0), fld(FStr, -1), fld(FSub, 0), fld(FStr, -1)},
		Expr: Alt(
			Seq(capAt(Ref("Ident"), 0), Lit("("), subAt(0, 1), Lit(")")),
			Seq(capAt(Ref("Ident"), 2), Lit("("), subAt(0, 3), Lit(";")),
			capAt(Ref("Int"), 4)),
	}}}
	sr2 := &Grammar{Static: "SR2", Lookahead: 1, Elide: []string{"WS"}, Unions: root, Prods: []*Prod{{PosStyle: 3,
		Fields: []Field{fld(FStr, -1), fld(FSub, 0), fld(FSubs, 0), fld(FSub, 0), fld(FStr, -1)},
		Expr: Seq(
			Group("?", capAt(Ref("Ident"), 0)),
			Group("?", Seq(Lit("("), subAt(0, 1), Lit(")"))),
			Group("?", Alt(Seq(Lit("+"), subAt(0, 2), Lit("-")), Seq(Lit("+"), subAt(0, 3)))),
			capAt(Ref("Int"), 4)),
	}}}
	sr3 := &Grammar{Static: "SR3", Lookahead: 1, Elide: []string{"WS"}, Unions: root, Prods: []*Prod{{PosStyle: 3,
		Fields: []Field{fld(FStrs, -1), fld(FSubVs, 0), fld(FStrs, -1)},
		Expr: Seq(
			Group("*", Seq(capAt(Ref("Ident"), 0), Lit("("), subAt(0, 1), Lit(")"), Lit(";"))),
			Group("*", capAt(Ref("Ident"), 2)),
			Group("?", Seq(Lit("("), Lit("-"), Lit(")"))),
			Lit("-")),
	}}}
	return []*Grammar{sr1, sr2, sr3, sr4()}
}

// ChainGrammar is a grammar of n productions, each of which wraps the next one between two literals
// (P_i = "a" @@P_{i+1} "z", the last one @Ident): many productions, each with text after its reference.
func ChainGrammar(n int) *Grammar {
	g := &Grammar{Lookahead: 1, Elide: []string{"WS"}, Unions: []Union{{Members: []int{0}, Ptr: []bool{false}}}}
	for i := 0; i < n; i++ {
		p := &Prod{PosStyle: 3}
		if i == n-1 {
			p.Expr = capAt(Ref("Ident"), 0)
			p.Fields = []Field{fld(FStr, -1)}
		} else {
			p.Expr = Seq(Lit("a"), subAt(i+1, 0), Group("?", Lit("z")), Lit(";"))
			p.Fields = []Field{fld(FSub, i+1)}
		}
		g.Prods = append(g.Prods, p)
	}
	return g
}

// SR4: Value = List | Atom .  List = "(" Value* ")" | "begin" "(" Value* ")" .  Atom = <ident> .   Three productions that refer to each other
// in a cycle, with named Go types, so that a parser can be derived for an inner production
// (participle.ParserForProduction); only the list and the atom carry positions.
type SR4 struct {
	F0 *SR4L `@@`
	F1 *SR4A `| @@`
}

type SR4L struct {
	Pos lexer.Position
	F0  []*SR4 `"(" (@@)* ")" | "begin" "(" (@@)* ")"`
}

type SR4A struct {
	Pos    lexer.Position
	EndPos lexer.Position
	Tokens []lexer.Token
	F0     string `@Ident`
}

func sr4() *Grammar {
	return &Grammar{Static: "SR4", Lookahead: 1, Elide: []string{"WS"}, Unions: []Union{{Members: []int{0}, Ptr: []bool{false}}}, Prods: []*Prod{
		{PosStyle: 3, Fields: []Field{fld(FSub, 1), fld(FSub, 2)}, Expr: Alt(subAt(1, 0), subAt(2, 1))},
		{PosStyle: 6, Fields: []Field{fld(FSubs, 0)}, Expr: Alt(
			Seq(Lit("("), Group("*", subAt(0, 0)), Lit(")")),
			Seq(Lit("begin"), Lit("("), Group("*", subAt(0, 0)), Lit(")")))},
		{PosStyle: 0, Fields: []Field{fld(FStr, -1)}, Expr: capAt(Ref("Ident"), 0)},
	}}
}

// DerivedParse parses input with a parser derived from b's parser for the inner production pi
// (participle.ParserForProduction needs a named Go type: static grammars only). ok=false: no such parser.
func DerivedParse(b *Built, pi int, input string) (ast any, err error, ok bool) {
	if b.G.Static != "SR4" {
		return nil, nil, false
	}
	switch pi {
	case 1:
		p, perr := participle.ParserForProduction[SR4L](b.P)
		if perr != nil {
			return nil, perr, true
		}
		v, e := p.ParseString("f", input)
		if v == nil {
			return nil, e, true
		}
		return v, e, true
	case 2:
		p, perr := participle.ParserForProduction[SR4A](b.P)
		if perr != nil {
			return nil, perr, true
		}
		v, e := p.ParseString("f", input)
		if v == nil {
			return nil, e, true
		}
		return v, e, true
	}
	return nil, nil, false
}
