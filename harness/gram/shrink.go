package gram

import "encoding/json"

// Clone deep-copies a grammar (via JSON, the replay format).
func (g *Grammar) Clone() *Grammar {
	b, _ := json.Marshal(g)
	var c Grammar
	_ = json.Unmarshal(b, &c)
	return &c
}

// normalise drops fields no capture refers to any more and renumbers the rest (field order is
// preserved, so tags stay in token order).
func (p *Prod) normalise() {
	used := map[int]bool{}
	p.Expr.Walk(func(e *Expr) {
		if e.Kind == KCap || e.Kind == KSub || e.Kind == KPars {
			used[e.Field] = true
		}
	})
	remap := map[int]int{}
	var fields []Field
	for i, f := range p.Fields {
		if used[i] {
			remap[i] = len(fields)
			fields = append(fields, f)
		}
	}
	p.Expr.Walk(func(e *Expr) {
		if e.Kind == KCap || e.Kind == KSub || e.Kind == KPars {
			e.Field = remap[e.Field]
		}
	})
	p.Fields = fields
	if p.Embed > len(p.Fields) {
		p.Embed = len(p.Fields)
	}
}

// candidates yields grammars that are structurally smaller than g: a sub-expression hoisted over
// its parent, a sequence / alternative element dropped, a modifier removed, a production body
// replaced by a single captured token. Each candidate is a fresh copy.
func (g *Grammar) candidates(yield func(*Grammar) bool) {
	type edit func(c *Grammar) bool
	try := func(f edit) bool {
		c := g.Clone()
		if !f(c) {
			return true
		}
		for _, p := range c.Prods {
			if !hasCapture(p.Expr) {
				return true // every production needs at least one capture to be a valid grammar
			}
			p.normalise()
		}
		return yield(c)
	}
	// paths into expressions are addressed by (production, pre-order index)
	for pi := range g.Prods {
		n := 0
		g.Prods[pi].Expr.Walk(func(*Expr) { n++ })
		// whole body -> single captured identifier
		if n > 2 {
			if !try(func(c *Grammar) bool {
				c.Prods[pi].Expr = Cap(Ref("Ident"))
				c.Prods[pi].Fields = []Field{{Kind: FStr, Prod: -1, Uni: -1}}
				return true
			}) {
				return
			}
		}
		for idx := 0; idx < n; idx++ {
			idx := idx
			// hoist each child over the node
			for k := 0; k < 4; k++ {
				k := k
				if !try(func(c *Grammar) bool {
					var target, parent *Expr
					pk := -1
					i := 0
					var walk func(e, par *Expr, kidx int)
					walk = func(e, par *Expr, kidx int) {
						if i == idx {
							target, parent, pk = e, par, kidx
						}
						i++
						for j, kid := range e.Kids {
							walk(kid, e, j)
						}
					}
					walk(c.Prods[pi].Expr, nil, -1)
					if target == nil || k >= len(target.Kids) {
						return false
					}
					if target.Kind == KCap || target.Kind == KSub || target.Kind == KPars {
						return false // keep captures (their field bookkeeping) intact
					}
					repl := target.Kids[k]
					if parent == nil {
						c.Prods[pi].Expr = repl
					} else {
						parent.Kids[pk] = repl
					}
					return true
				}) {
					return
				}
				// drop child k of a sequence / alternative
				if !try(func(c *Grammar) bool {
					var target *Expr
					i := 0
					c.Prods[pi].Expr.Walk(func(e *Expr) {
						if i == idx {
							target = e
						}
						i++
					})
					if target == nil || (target.Kind != KSeq && target.Kind != KAlt) || len(target.Kids) <= 1 || k >= len(target.Kids) {
						return false
					}
					target.Kids = append(target.Kids[:k:k], target.Kids[k+1:]...)
					return true
				}) {
					return
				}
			}
			// remove a modifier / simplify spelling
			if !try(func(c *Grammar) bool {
				var target *Expr
				i := 0
				c.Prods[pi].Expr.Walk(func(e *Expr) {
					if i == idx {
						target = e
					}
					i++
				})
				if target == nil || target.Kind != KGroup || target.Mod == "" {
					return false
				}
				target.Mod = ""
				return true
			}) {
				return
			}
		}
	}
	// configuration
	if !try(func(c *Grammar) bool {
		if len(c.CI) == 0 {
			return false
		}
		c.CI = nil
		return true
	}) {
		return
	}
	if !try(func(c *Grammar) bool {
		changed := false
		for _, p := range c.Prods {
			if p.PosStyle != 3 || p.TagStyle != 0 || p.Tight {
				p.PosStyle, p.TagStyle, p.Tight = 3, 0, false
				changed = true
			}
		}
		return changed
	}) {
		return
	}
	for u := range g.Unions {
		u := u
		if len(g.Unions[u].Members) > 1 {
			for k := range g.Unions[u].Members {
				k := k
				if !try(func(c *Grammar) bool {
					un := &c.Unions[u]
					un.Members = append(un.Members[:k:k], un.Members[k+1:]...)
					if k < len(un.Ptr) {
						un.Ptr = append(un.Ptr[:k:k], un.Ptr[k+1:]...)
					}
					return true
				}) {
					return
				}
			}
		}
	}
}

// Shrink greedily minimises g while stillFails keeps returning true. budget bounds the number of
// candidate evaluations.
func Shrink(g *Grammar, stillFails func(*Grammar) bool, budget int) *Grammar {
	if g.Static != "" {
		return g // rendered as hand-written Go types: the IR cannot change without them
	}
	cur := g
	for improved := true; improved && budget > 0; {
		improved = false
		cur.candidates(func(c *Grammar) bool {
			budget--
			if budget <= 0 {
				return false
			}
			if c.Size() < cur.Size() || (c.Size() == cur.Size() && len(mustJSON(c)) < len(mustJSON(cur))) {
				ok := false
				func() {
					defer func() { _ = recover() }()
					ok = stillFails(c)
				}()
				if ok {
					cur = c
					improved = true
					return false
				}
			}
			return true
		})
	}
	return cur
}

func mustJSON(v any) string {
	b, _ := json.Marshal(v)
	return string(b)
}

// ShrinkText removes whitespace-separated pieces and single bytes from s while stillFails holds.
func ShrinkText(s string, stillFails func(string) bool, budget int) string {
	cur := s
	for improved := true; improved && budget > 0; {
		improved = false
		for size := len(cur) / 2; size >= 1 && !improved; size /= 2 {
			for at := 0; at+size <= len(cur); at += size {
				budget--
				if budget <= 0 {
					return cur
				}
				cand := cur[:at] + cur[at+size:]
				ok := false
				func() {
					defer func() { _ = recover() }()
					ok = stillFails(cand)
				}()
				if ok {
					cur = cand
					improved = true
					break
				}
			}
		}
	}
	return cur
}
