package gram

import (
	"io"
	"strings"

	"github.com/alecthomas/participle/v2/lexer"
)

// Profile is a lexer configuration generated grammars run against.
type Profile struct {
	Name        string
	Def         lexer.Definition
	Vocab       []VTok
	RefTypes    []string   // token types a grammar can name
	ElideSets   [][]string // possible Elide() sets
	WSSeps      []string
	CommentSeps []string
	syms        map[lexer.TokenType]string
}

// longWord is an identifier longer than any buffer or abbreviation limit a trace or an error message may have.
const longWord = "abcdefghijklmnopqrstuvwxyzABCDEFGHIJKLMNOPQRSTUVWXYZabcdefgh"

// SpecialFold rewrites s and k as LONG S and KELVIN SIGN (which fold to them but take more bytes).
func SpecialFold(s string) string {
	return strings.NewReplacer("s", "\u017f", "k", "\u212a", "S", "\u017f", "K", "\u212a").Replace(s)
}

// LexDef is the stateful lexer profile. WS (and optionally Comment) are elided by the parser.
var LexDef = lexer.MustSimple([]lexer.SimpleRule{
	// (Int before Ident: the symbol numbers then differ from those the default text/scanner lexer gives the same names)
	{Name: "Int", Pattern: `[0-9]+`},
	{Name: "Ident", Pattern: `[a-zA-Z\x{17F}\x{212A}]+`}, // (with LONG S and KELVIN SIGN, which fold to s and k)
	{Name: "Punct", Pattern: `[-+;()]`},
	{Name: "WS", Pattern: `\s+`},
	{Name: "Comment", Pattern: `#[a-z ]*#`},
})

// CustomDef is a lexer.Definition implemented outside the library: the stateful profile's lexer with every token
// type renumbered to a positive number (the library's own lexers only hand out negative ones). It is used by value
// and has a slice field (so it is neither comparable nor hashable), and it offers Lex(reader) only.
type CustomDef struct {
	inner lexer.Definition
	names []string // symbol names in numbering order
}

// Symbols implements lexer.Definition.
func (d CustomDef) Symbols() map[string]lexer.TokenType {
	out := map[string]lexer.TokenType{"EOF": lexer.EOF}
	for i, n := range d.names {
		out[n] = lexer.TokenType(3 + 7*i)
	}
	return out
}

// Lex implements lexer.Definition.
func (d CustomDef) Lex(filename string, r io.Reader) (lexer.Lexer, error) {
	l, err := d.inner.Lex(filename, r)
	if err != nil {
		return nil, err
	}
	m := map[lexer.TokenType]lexer.TokenType{lexer.EOF: lexer.EOF}
	cs := d.Symbols()
	for n, t := range d.inner.Symbols() {
		m[t] = cs[n]
	}
	return &customLexer{l, m}, nil
}

type customLexer struct {
	l lexer.Lexer
	m map[lexer.TokenType]lexer.TokenType
}

func (c *customLexer) Next() (lexer.Token, error) {
	t, err := c.l.Next()
	if err != nil {
		return t, err
	}
	t.Type = c.m[t.Type]
	return t, nil
}

var profiles = map[string]*Profile{
	"": {
		Name: "stateful", Def: LexDef,
		Vocab: []VTok{
			{"Ident", "a"}, {"Ident", "b"}, {"Ident", "ab"}, {"Ident", "A"}, {"Ident", "sk"}, {"Ident", longWord},
			{"Int", "1"}, {"Int", "2"}, {"Int", "12"},
			{"Punct", "+"}, {"Punct", "-"}, {"Punct", ";"}, {"Punct", "("}, {"Punct", ")"},
		},
		RefTypes:    []string{"Ident", "Int", "Punct"},
		ElideSets:   [][]string{{"WS"}, {"WS", "Comment"}},
		WSSeps:      []string{" ", "  ", "\n", "\t ", " \n "},
		CommentSeps: []string{"#c#", " #x y# ", "#a#\n", "#b##c#", " #z#"},
	},
	// a lexer.Definition written by a user of the library: same tokens as the stateful profile, positive type numbers
	"custom": {
		Name: "custom", Def: CustomDef{inner: LexDef, names: []string{"Comment", "WS", "Punct", "Ident", "Int"}},
		Vocab: []VTok{
			{"Ident", "a"}, {"Ident", "b"}, {"Ident", "ab"}, {"Ident", "A"}, {"Ident", "sk"}, {"Ident", longWord},
			{"Int", "1"}, {"Int", "2"}, {"Int", "12"},
			{"Punct", "+"}, {"Punct", "-"}, {"Punct", ";"}, {"Punct", "("}, {"Punct", ")"},
		},
		RefTypes:    []string{"Ident", "Int", "Punct"},
		ElideSets:   [][]string{{"WS"}, {"WS", "Comment"}},
		WSSeps:      []string{" ", "  ", "\n", "\t ", " \n "},
		CommentSeps: []string{"#c#", " #x y# ", "#a#\n", "#b##c#", " #z#"},
	},
	// the default text/scanner lexer: whitespace and comments are skipped by the scanner itself (they are
	// not tokens at all), punctuation tokens have the character as their type and can only be matched by literals
	"scanner": {
		Name: "scanner", Def: lexer.TextScannerLexer,
		Vocab: []VTok{
			{"Ident", "a"}, {"Ident", "b"}, {"Ident", "ab"}, {"Ident", "A"}, {"Ident", "sk"}, {"Ident", longWord},
			{"Int", "1"}, {"Int", "2"}, {"Int", "12"},
			{"+", "+"}, {"-", "-"}, {";", ";"}, {"(", "("}, {")", ")"},
		},
		RefTypes:    []string{"Ident", "Int"},
		ElideSets:   [][]string{nil},
		WSSeps:      []string{" ", "  ", "\n", "\t ", " \n "},
		CommentSeps: []string{"/* c */", " // x y\n", "/*a*/\n"},
	},
}

func init() {
	for _, p := range profiles {
		p.syms = lexer.SymbolsByRune(p.Def)
	}
}

// Prof returns the grammar's lexer profile.
func (g *Grammar) Prof() *Profile { return profiles[g.Profile] }

// TypeName is the symbolic name of a token's type (the character itself for text/scanner punctuation).
func (p *Profile) TypeName(t lexer.Token) string {
	if n, ok := p.syms[t.Type]; ok {
		return n
	}
	if t.Type > 0 {
		return string(rune(t.Type))
	}
	return "?"
}

// TypeOfText guesses the type of a vocabulary text.
func (p *Profile) TypeOfText(s string) string {
	for _, v := range p.Vocab {
		if v.Value == s {
			return v.Type
		}
	}
	if s == "" {
		return "?"
	}
	c := s[0]
	switch {
	case c >= 'a' && c <= 'z' || c >= 'A' && c <= 'Z':
		return "Ident"
	case c >= '0' && c <= '9':
		return "Int"
	case c == ' ' || c == '\n' || c == '\t':
		return "WS"
	case c == '#':
		return "Comment"
	}
	if p.Name == "scanner" {
		return s[:1]
	}
	return "Punct"
}

func (p *Profile) vocabOf(typ string) []VTok {
	var c []VTok
	for _, v := range p.Vocab {
		if v.Type == typ {
			c = append(c, v)
		}
	}
	return c
}

// needSep: would the two tokens merge (or lex differently) if written without a separator?
func (p *Profile) needSep(a, b VTok) bool {
	word := func(v VTok) bool { return v.Type == "Ident" || v.Type == "Int" }
	if !word(a) || !word(b) {
		return false
	}
	if p.Name == "scanner" {
		return !(a.Type == "Int" && b.Type == "Ident") // "1a" lexes as Int Ident; "a1" is one identifier
	}
	return a.Type == b.Type
}
