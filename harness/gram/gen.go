package gram

import (
	"strings"

	"pgregory.net/rapid"
)

// VTok is a vocabulary token (type + text).
type VTok struct{ Type, Value string }

var wildLiterals = []string{"\"#", "\n", "#", "\t", "\"", "\\", "'", "`", "é", "日本", "a b", "<=", "||", "\x00", "\u2028", "\"quoted\"", "%d", "\r\n", ".", "=", "(?", "~", "# \"", "//", "/*", "*/", ";"}

// numLike: the expression only matches texts made of an optional sign and Int tokens.
func numLike(e *Expr) bool {
	switch e.Kind {
	case KRef:
		return e.T == "Int"
	case KLit:
		return (e.S != "" && e.S[0] >= '0' && e.S[0] <= '9') || e.S == "-" || e.S == "+"
	case KSeq, KAlt, KGroup:
		for _, k := range e.Kids {
			if !numLike(k) {
				return false
			}
		}
		return true
	}
	return false
}

// GenOpts steers the grammar generator.
type GenOpts struct {
	MaxProds    int
	MaxDepth    int
	TrapPercent int  // probability (percent) of a trap shape at each composite node
	NoLookNeg   bool // do not generate ~ and (?= ) / (?! ) (C13's domain)
	NameElided  bool // allow the grammar to name elided token types explicitly
	PosStyles   bool // vary Pos/EndPos/Tokens styles (else always plain)
	MixedUnion  bool // allow pointer and value members in one union
	Profiles    bool // also use the default text/scanner lexer profile
	DirectRec   bool // direct struct recursion (*Self "@@" behind a consumed token); only renderable as Go source
	WildLits    bool // literal texts with escapes / non-ASCII (for grammars that are printed, not parsed)
	Embeds      bool // Go-source rendering: put leading fields into an embedded named struct
	DeepEmbeds  bool // StructOf rendering: leading fields in a struct embedded by value 1-4 levels deep
	BadElide    bool // one grammar in twenty-five gets a further Elide() option naming a token type the lexer does not define (or EOF, which it does)
	Statics     bool // one grammar in twenty is a hand-written one whose production contains itself directly (static.go)
	Parseables  bool // user-implemented productions (participle.Parseable)
}

type genCtx struct {
	t     *rapid.T
	g     *Grammar
	o     GenOpts
	nu    int
	nullP []bool // nullability of finished productions
	stack []int  // productions under construction
	nodes int
	force map[int][]int // union -> productions that must be among its members
}

func (c *genCtx) draw(lo, hi int, label string) int { return rapid.IntRange(lo, hi).Draw(c.t, label) }

func (c *genCtx) leaf() *Expr {
	if c.o.NameElided && c.draw(0, 5, "elidedleaf") == 0 {
		switch c.draw(0, 2, "elidedkind") {
		case 0:
			return Ref("WS")
		case 1:
			if c.g.IsElided("Comment") {
				return Ref("Comment")
			}
			return Ref("WS")
		default:
			return TLit(" ", "WS")
		}
	}
	var e *Expr
	switch c.draw(0, 5, "leaf") {
	case 0, 1, 2:
		v := rapid.SampledFrom(c.g.Prof().Vocab).Draw(c.t, "lit")
		e = Lit(v.Value)
		if c.o.WildLits && c.draw(0, 2, "wild") == 0 {
			e = Lit(rapid.SampledFrom(wildLiterals).Draw(c.t, "wildlit"))
		}
	case 3:
		v := rapid.SampledFrom(c.g.Prof().Vocab).Draw(c.t, "tlit")
		ty := v.Type
		named := false
		for _, rt := range c.g.Prof().RefTypes {
			if rt == ty {
				named = true
			}
		}
		if !named || c.draw(0, 3, "tlitmismatch") == 0 {
			ty = rapid.SampledFrom(c.g.Prof().RefTypes).Draw(c.t, "ty")
		}
		e = TLit(v.Value, ty)
	default:
		e = Ref(rapid.SampledFrom(c.g.Prof().RefTypes).Draw(c.t, "ref"))
	}
	e.Style = c.draw(0, 5, "style")
	return e
}

func (c *genCtx) capLeaf() *Expr { return Cap(c.leaf()) }

// newProd generates a fresh production (appended to the grammar) and returns its index.
func (c *genCtx) newProd(nn bool, depth int) int {
	idx := len(c.g.Prods)
	p := &Prod{}
	c.g.Prods = append(c.g.Prods, p)
	c.nullP = append(c.nullP, false)
	c.stack = append(c.stack, idx)
	e := c.gen(depth, nn, false)
	if !hasCapture(e) {
		e = Seq(c.capLeaf(), e)
	}
	c.stack = c.stack[:len(c.stack)-1]
	p.Expr = e
	c.nullP[idx] = c.nullable(e)
	if c.o.PosStyles {
		p.PosStyle = c.draw(0, 7, "posstyle")
	}
	p.TagStyle = c.draw(0, 1, "tagstyle")
	p.Tight = rapid.Bool().Draw(c.t, "tight")
	return idx
}

func (c *genCtx) cur() int { return c.stack[len(c.stack)-1] }

// subProd returns a @@ reference to a new or an existing (finished, higher-indexed) production.
func (c *genCtx) subProd(nn bool, depth int) *Expr {
	cur := c.cur()
	var cands []int
	for i := cur + 1; i < len(c.g.Prods); i++ {
		finished := true
		for _, s := range c.stack {
			if s == i {
				finished = false
			}
		}
		if finished && (!nn || !c.nullP[i]) {
			cands = append(cands, i)
		}
	}
	if len(c.g.Prods) < c.o.MaxProds && (len(cands) == 0 || c.draw(0, 2, "newprod") > 0) {
		d := depth - 1
		if d < 1 {
			d = 1
		}
		return SubP(c.newProd(nn || c.draw(0, 3, "subnn") > 0, d))
	}
	if len(cands) == 0 {
		return nil
	}
	return SubP(cands[c.draw(0, len(cands)-1, "subpick")])
}

func (c *genCtx) nullable(e *Expr) bool {
	switch e.Kind {
	case KRef:
		return e.T == "EOF"
	case KLit, KNeg, KPars:
		return false
	case KLook:
		return true
	case KSeq:
		for _, k := range e.Kids {
			if !c.nullable(k) {
				return false
			}
		}
		return true
	case KAlt:
		for _, k := range e.Kids {
			if c.nullable(k) {
				return true
			}
		}
		return false
	case KGroup:
		if e.Mod == "?" || e.Mod == "*" {
			return true
		}
		if e.Mod == "!" {
			return false // matches non-empty or fails
		}
		return c.nullable(e.Kids[0])
	case KCap:
		return c.nullable(e.Kids[0])
	case KSub:
		if e.Uni >= 0 {
			return false // union members are non-nullable by construction
		}
		return c.nullP[e.Prod]
	}
	return false
}

// gen produces an expression. nn: must not be able to match without consuming a token.
// incap: inside a capture (no captures / sub-productions allowed).
func (c *genCtx) gen(depth int, nn, incap bool) *Expr {
	c.nodes++
	if depth <= 0 || c.nodes > 60 {
		if !incap && rapid.Bool().Draw(c.t, "capleaf") {
			return c.capLeaf()
		}
		return c.leaf()
	}
	if !incap && c.draw(0, 99, "trap?") < c.o.TrapPercent {
		if e := c.trap(depth, nn); e != nil {
			return e
		}
	}
	switch c.draw(0, 13, "node") {
	case 0, 1:
		n := c.draw(2, 4, "seqn")
		kids := make([]*Expr, n)
		nnIdx := -1
		if nn {
			nnIdx = c.draw(0, n-1, "nnidx")
		}
		for i := range kids {
			kids[i] = c.gen(depth-1, i == nnIdx, incap)
		}
		return Seq(kids...)
	case 2, 3:
		n := c.draw(2, 3, "altn")
		kids := make([]*Expr, n)
		for i := range kids {
			kids[i] = c.gen(depth-1, true, incap)
		}
		return Alt(kids...)
	case 4, 5:
		if !nn && c.draw(0, 11, "bracketshape") == 0 {
			// bracket groups whose whole content is one modified term, or that carry a modifier of their own:
			// [ x+ ] , { x+ } , [ x! ] , [ x ]? , { x }*
			x := c.leaf()
			if !incap && rapid.Bool().Draw(c.t, "bracketcap") {
				x = Cap(x)
			}
			inner := Group(rapid.SampledFrom([]string{"+", "!", "+"}).Draw(c.t, "innermod"), x)
			inner.Style = 2
			outer := Group(rapid.SampledFrom([]string{"?", "*"}).Draw(c.t, "bracketmod"), inner)
			outer.Style = 1
			switch c.draw(0, 5, "modwrap") {
			case 0:
				// a modified term behind one more pair of parentheses, with a modifier outside: ( ( x+ ) )?
				o := Group(outer.Mod, Group("", inner))
				o.Style = c.draw(0, 1, "modwrapstyle") * 3
				return o
			case 1:
				if !incap {
					// ... behind a capture: ( @( x+ ) )?
					plain := c.leaf()
					in2 := Group(inner.Mod, plain)
					in2.Style = 2
					o := Group(outer.Mod, Cap(in2))
					o.Style = c.draw(0, 5, "modwrapstyle2")
					return o
				}
			case 2:
				if c.o.WildLits && !c.o.NoLookNeg && !incap {
					// ... behind a negation: ( ~( x+ ) )*
					in2 := Group("+", c.leaf())
					in2.Style = 2
					o := Group(outer.Mod, Not(in2))
					o.Style = c.draw(0, 5, "modwrapstyle3")
					return o
				}
			}
			if c.draw(0, 2, "doublemod") == 0 {
				// the same modifier twice: [ x ]? , { x }*
				plainInner := Group(outer.Mod, x)
				plainInner.Style = 1
				outer = Group("?", plainInner)
				outer.Style = 2
			}
			return outer
		}
		mods := []string{"?", "*", "+", ""}
		if nn {
			mods = []string{"+", ""}
		}
		mod := rapid.SampledFrom(mods).Draw(c.t, "mod")
		body := c.gen(depth-1, nn || mod == "*" || mod == "+", incap)
		g := Group(mod, body)
		g.Style = c.draw(0, 5, "gstyle")
		return g
	case 6:
		if incap {
			return c.leaf()
		}
		return Cap(c.gen(depth-1, nn, true))
	case 7:
		if incap {
			return c.leaf()
		}
		if c.o.Parseables && c.draw(0, 3, "parseable") == 0 {
			e := &Expr{Kind: KPars, Prod: -1, Uni: -1}
			switch c.draw(0, 4, "parskind") {
			case 0:
				e.S = "R" // the rewinding kind (PTokR)
				switch c.draw(0, 3, "rewindshape") {
				case 3:
					// tried again and again next to an alternative that takes what it refuses: ( @R | @Ident )+ -- an
					// attempt that refused leaves nothing behind for the attempt that accepts
					g := Group(rapid.SampledFrom([]string{"+", "+", "*"}).Draw(c.t, "rewindrep"), Alt(e, Cap(Ref("Ident"))))
					if nn {
						g.Mod = "+"
					}
					g.Style = c.draw(0, 5, "gstyle")
					return g
				case 1:
					// a consumed token, an optional rewinding production, then a production that reads the lexer with
					// Peek/Next: after a rewind over pending elided tokens it must still see the next real token
					g := Group("?", e)
					g.Style = c.draw(0, 5, "gstyle")
					return Seq(c.capLeaf(), g, &Expr{Kind: KPars, Prod: -1, Uni: -1})
				case 2:
					// ... or nothing after it: if the production ends here, its token run ends right after the token
					// consumed before the rewind
					g := Group("?", e)
					g.Style = c.draw(0, 5, "gstyle")
					return Seq(c.capLeaf(), g)
				}
			case 1:
				if c.g.Profile == "" {
					e.S = "N" // an embedded parser (PNest); its grammar is written for the stateful lexer profile
				}
			}
			return e
		}
		if len(c.g.Prods) < c.o.MaxProds+2 && c.draw(0, 9, "emptyprod") == 0 {
			// a production that may match nothing, captured where it does: the field then holds an empty node, not nil
			a, b := c.leaf(), c.leaf()
			np := &Prod{Expr: Group("?", Cap(a)), PosStyle: 3}
			if rapid.Bool().Draw(c.t, "emptyprodstar") {
				np.Expr = Seq(Group("?", Cap(a)), Group("*", Cap(b)))
			}
			c.g.Prods = append(c.g.Prods, np)
			c.nullP = append(c.nullP, true)
			return Seq(SubP(len(c.g.Prods)-1), c.otherLiteral(a))
		}
		if e := c.subProd(nn, depth); e != nil {
			return e
		}
		return c.capLeaf()
	case 8:
		if c.o.NoLookNeg {
			return c.leaf()
		}
		if c.o.WildLits && !incap {
			switch c.draw(0, 5, "negshape") {
			case 0:
				// a modified negation whose operand itself ends in a modifier: ( ~( x? ) )+
				inner := Group(rapid.SampledFrom([]string{"?", "*", "+", "!"}).Draw(c.t, "negin"), c.leaf())
				outer := rapid.SampledFrom([]string{"+", "+", "?", "*"}).Draw(c.t, "negout")
				if nn {
					outer = "+"
				}
				return Group(outer, Not(inner))
			case 2:
				// a negated production reference: ~@@
				if e := c.subProd(true, depth); e != nil {
					return Not(e)
				}
			case 1:
				// a negation of a captured negation, directly or through plain groups: ~( @~x )
				in := Cap(Not(c.leaf()))
				if c.draw(0, 1, "negwrap") == 0 {
					return Not(Group("", in))
				}
				return Not(in)
			case 3:
				// a negation of a modified group whose content starts with another negation: ~( (~x)* ), ~[ ~x y ]
				// (printing it needs the parentheses that keep the two `~` apart; C14-r11m1)
				var body *Expr = Not(c.leaf())
				if c.draw(0, 2, "negnegtail") == 0 {
					body = Seq(body, c.leaf())
				}
				g := Group(rapid.SampledFrom([]string{"*", "?", "+", "!"}).Draw(c.t, "negnegmod"), body)
				g.Style = c.draw(0, 2, "negnegstyle")
				return Not(g)
			}
		}
		var n *Expr
		if c.o.WildLits && c.draw(0, 2, "wildneg") == 0 {
			// grammars that are only printed: the operand may be optional and may capture
			n = Not(c.gen(depth-1, false, incap))
		} else {
			n = Not(c.gen(depth-1, true, true))
		}
		n.Style = c.draw(0, 1, "nstyle")
		return n
	case 9:
		if c.o.NoLookNeg {
			return c.leaf()
		}
		look := Look(rapid.Bool().Draw(c.t, "neg"), c.gen(depth-1, true, true))
		return Seq(look, c.gen(depth-1, true, incap))
	case 10:
		// documented non-empty shape: (a? b? c?)!
		n := c.draw(2, 3, "nen")
		kids := make([]*Expr, n)
		for i := range kids {
			item := c.leaf()
			if !incap && rapid.Bool().Draw(c.t, "necap") {
				item = Cap(item)
			}
			kids[i] = Group("?", item)
			kids[i].Style = c.draw(0, 5, "gstyle")
		}
		ne := Group("!", Seq(kids...))
		if c.o.WildLits {
			switch c.draw(0, 3, "wildne") {
			case 0:
				// ! applied to any term, and a further modifier stacked on it: ( x! )?
				ne = Group("!", c.gen(depth-1, true, incap))
				ne.Style = c.draw(0, 5, "gstyle")
				if !nn {
					return Group(rapid.SampledFrom([]string{"?", "*"}).Draw(c.t, "neouter"), ne)
				}
				return Group("+", ne)
			case 1:
				if !nn {
					return Group(rapid.SampledFrom([]string{"?", "*", "+"}).Draw(c.t, "neouter2"), ne)
				}
			}
		}
		return ne
	case 12:
		// numeric capture shapes: @Int, @("-"? Int), @(Int+)
		if incap {
			return c.leaf()
		}
		switch c.draw(0, 3, "numshape") {
		case 0:
			return Cap(Seq(Group("?", Lit("-")), Ref("Int")))
		case 1:
			return Cap(Group("+", Ref("Int")))
		case 2:
			return Group("+", Cap(Ref("Int")))
		default:
			return Cap(Ref("Int"))
		}
	case 11:
		// reference to a union, guarded by a consumed token so that recursion through the union is not left recursion
		if incap || (c.nu <= 1 && !c.o.DirectRec) {
			return c.leaf()
		}
		u := 0
		if c.nu > 1 {
			u = c.draw(1, c.nu-1, "uni")
		}
		guard := c.leaf()
		if guard.Kind == KRef && c.g.IsElided(guard.T) || guard.T == "WS" || guard.T == "Comment" {
			guard = Lit("(")
		}
		if rapid.Bool().Draw(c.t, "capguard") {
			guard = Cap(guard)
		}
		var ref *Expr = SubU(u)
		if c.o.DirectRec && rapid.Bool().Draw(c.t, "direct") {
			ref = SubP(c.stack[c.draw(0, len(c.stack)-1, "ancestor")]) // self or an enclosing production
		}
		if ref.Uni >= 0 && c.draw(0, 3, "unguarded") == 0 {
			// the union reference at the head of its sequence: @@ ";" -- kept only if the finished grammar is
			// not left-recursive (GenGrammar puts the guard back otherwise)
			s := Seq(ref, rapid.SampledFrom([]*Expr{Lit(";"), Lit(")"), Cap(Lit(";"))}).Draw(c.t, "tail"))
			s.ung = true
			return s
		}
		if rapid.Bool().Draw(c.t, "closer") {
			return Seq(guard, ref, Lit(")"))
		}
		return Seq(guard, ref)
	default:
		if !incap && rapid.Bool().Draw(c.t, "capleaf2") {
			return c.capLeaf()
		}
		return c.leaf()
	}
}

// ---------------------------------------------------------------------------------------------
// trap shapes: an attempt that records captures (optionally completes or half-completes a
// sub-production) and then fails, next to a continuation that matches the same tokens.

func clone(e *Expr) *Expr {
	c := *e
	c.Kids = make([]*Expr, len(e.Kids))
	for i, k := range e.Kids {
		c.Kids[i] = clone(k)
	}
	return &c
}

// flatLeaves lists the terminal leaves of e in token order, not descending into sub-productions,
// negations or lookahead groups.
func flatLeaves(e *Expr, out *[]*Expr) {
	switch e.Kind {
	case KLit, KRef:
		*out = append(*out, e)
	case KNeg, KLook, KSub, KPars:
	default:
		for _, k := range e.Kids {
			flatLeaves(k, out)
		}
	}
}

func (c *genCtx) otherLiteral(e *Expr) *Expr {
	t := c.t
	for tries := 0; ; tries++ {
		v := rapid.SampledFrom(c.g.Prof().Vocab).Draw(t, "failLit")
		if e.Kind == KLit && strings.EqualFold(v.Value, e.S) {
			continue
		}
		if e.Kind == KRef && v.Type == e.T && tries < 8 {
			continue
		}
		return Lit(v.Value)
	}
}

func hasCapture(e *Expr) bool {
	if e.Kind == KCap || e.Kind == KSub || e.Kind == KPars {
		return true
	}
	for _, k := range e.Kids {
		if hasCapture(k) {
			return true
		}
	}
	return false
}

// simpleSeq builds a flat sequence of captured / plain leaves with an optional sub-production in
// the middle: the material both sides of a trap are cut from.
func (c *genCtx) simpleSeq(depth int) *Expr {
	n := c.draw(2, 4, "trapn")
	var kids []*Expr
	subAt := -1
	if c.draw(0, 2, "trapsub") > 0 {
		subAt = c.draw(1, n-1, "trapsubat")
	}
	for i := 0; i < n; i++ {
		if i == subAt {
			if c.nu > 1 && c.draw(0, 2, "trapuni") == 0 {
				// through a union the nested node may be of the enclosing production's own type (the reference
				// follows a consumed token, so this is not left recursion)
				u := c.draw(1, c.nu-1, "trapunion")
				if rapid.Bool().Draw(c.t, "trapself") {
					if c.force == nil {
						c.force = map[int][]int{}
					}
					c.force[u] = append(c.force[u], c.cur()) // the enclosing production becomes a member of that union
				}
				kids = append(kids, SubU(u))
				continue
			}
			if s := c.subProd(true, depth); s != nil {
				kids = append(kids, s)
				continue
			}
		}
		l := c.leaf()
		switch {
		case i > 0 && c.draw(0, 4, "traprep") == 0:
			// a completed repetition of captures inside the attempt: ( @x+ ... | ... )
			g := Group(rapid.SampledFrom([]string{"+", "*", "+"}).Draw(c.t, "trapmod"), Cap(l))
			g.Style = c.draw(0, 5, "gstyle")
			kids = append(kids, g)
		case i == 0 || rapid.Bool().Draw(c.t, "trapcap"):
			kids = append(kids, Cap(l))
		default:
			kids = append(kids, l)
		}
	}
	return Seq(kids...)
}

// perturb returns a copy of base that matches the same tokens up to some point after its first
// element and then demands a different token. With halfSub the failing point lies inside a clone
// of a sub-production (the sub-production fails part-way).
func (c *genCtx) perturb(base *Expr) *Expr {
	cp := clone(base)
	if cp.Kind != KSeq {
		return Seq(cp, Lit("+"), Lit("+"), Lit(";"))
	}
	// choose the failing element: index >= 1
	j := c.draw(1, len(cp.Kids), "failat")
	if j == len(cp.Kids) {
		// everything matches, then an extra token is demanded
		cp.Kids = append(cp.Kids, c.otherLiteral(Lit("\x00")))
		return cp
	}
	k := cp.Kids[j]
	switch {
	case k.Kind == KSub && k.Prod >= 0 && len(c.g.Prods) < c.o.MaxProds+2:
		// clone the production and make the clone fail at its last leaf
		src := c.g.Prods[k.Prod]
		np := &Prod{Expr: clone(src.Expr), PosStyle: src.PosStyle, TagStyle: src.TagStyle, Tight: src.Tight}
		var leaves []*Expr
		flatLeaves(np.Expr, &leaves)
		if len(leaves) >= 2 {
			l := leaves[len(leaves)-1]
			*l = *c.otherLiteral(l)
			c.g.Prods = append(c.g.Prods, np)
			c.nullP = append(c.nullP, c.nullable(np.Expr))
			cp.Kids[j] = SubP(len(c.g.Prods) - 1)
			return cp
		}
		fallthrough
	default:
		var leaves []*Expr
		flatLeaves(k, &leaves)
		if len(leaves) == 0 {
			cp.Kids = append(cp.Kids[:j+1:j+1], append([]*Expr{c.otherLiteral(Lit("\x00"))}, cp.Kids[j+1:]...)...)
			return cp
		}
		l := leaves[len(leaves)-1]
		*l = *c.otherLiteral(l)
	}
	return cp
}

func (c *genCtx) trap(depth int, nn bool) *Expr {
	base := c.simpleSeq(depth)
	bad := c.perturb(base)
	kinds := 9
	if c.o.NoLookNeg {
		kinds = 6
	}
	kind := c.draw(0, kinds-1, "trapkind")
	if c.o.NoLookNeg && kind >= 4 {
		kind = map[int]int{4: 7, 5: 9}[kind]
	} else if kind == 8 {
		kind = 9
	}
	if c.o.NameElided && len(c.g.Elide) > 0 && c.draw(0, 2, "elidedtrap") == 0 {
		kind = 8
	}
	if c.nu > 1 && c.draw(0, 7, "selfnest") == 0 {
		kind = 10
	}
	if c.draw(0, 9, "plusfirst") == 0 {
		kind = 11
	}
	if c.draw(0, 11, "nonemptycommit") == 0 {
		kind = 12
	}
	if c.draw(0, 11, "plusoverchoice") == 0 {
		kind = 13
	}
	if c.o.Parseables && c.draw(0, 11, "refusetrap") == 0 {
		kind = 14
	}
	if !c.o.NoLookNeg && c.draw(0, 11, "swallowtrap") == 0 {
		kind = 15
	}
	if c.draw(0, 13, "nonemptyfail") == 0 {
		kind = 16
	}
	if c.o.Parseables && c.draw(0, 13, "rewindcommit") == 0 {
		kind = 17
	}
	if c.draw(0, 13, "sliceorder") == 0 {
		kind = 18
	}
	switch kind {
	case 18:
		// one slice field written before a group and several times inside it: the elements stay in input order
		// however many captures the accepted attempt hands to its parent:  @a ( @b @c @b )? @a*
		if sp := c.subProd(true, depth); sp != nil && sp.Kind == KSub && sp.Uni < 0 && c.draw(0, 1, "sliceordernodes") == 0 {
			// ... the same with nested nodes:  @@ ( ";" @@ @@ )? @@*
			ref := func(h string) *Expr { r := SubP(sp.Prod); r.T = h; return r }
			g := Group(rapid.SampledFrom([]string{"?", "*", "?"}).Draw(c.t, "sliceordermod"), Seq(Lit(";"), ref("subs+"), ref("subs+")))
			g.Style = c.draw(0, 5, "gstyle")
			return Seq(ref("subs"), g, Group("*", ref("subs+")))
		}
		hint := func(e *Expr, h string) *Expr { cp := Cap(e); cp.T = h; return cp }
		a, b, cc := c.leaf(), c.leaf(), c.leaf()
		g := Group(rapid.SampledFrom([]string{"?", "*", "?"}).Draw(c.t, "sliceordermod"), Seq(hint(b, "strs+"), hint(cc, "strs+"), hint(clone(b), "strs+")))
		g.Style = c.draw(0, 5, "gstyle")
		return Seq(hint(a, "strs"), g, Group("*", hint(clone(a), "strs+")))
	case 17:
		// not at the start of the input: an alternative that begins with a user production which looks at a token and
		// rewinds (MakeCheckpoint / LoadCheckpoint), then commits inside an optional group that fails three tokens in,
		// next to an alternative that takes the same tokens:  @x ( R? @"ab" ( ";" ";" "+" )? | @Ident ) ";"*
		x := c.leaf()
		word := Lit(rapid.SampledFrom([]string{"ab", "b", "ab"}).Draw(c.t, "refusedword"))
		deep := Group("?", Seq(Lit(";"), Lit(";"), Lit("+")))
		deep.Style = c.draw(0, 5, "gstyle")
		first := Seq(Group("?", &Expr{Kind: KPars, S: "R", Prod: -1, Uni: -1}), Cap(word), deep)
		second := Cap(Ref("Ident"))
		return Seq(Cap(x), Alt(first, second), Group("*", Lit(";")))
	case 16:
		// a ( ... )! group whose body fails after an optional part of it has matched and captured, inside an optional,
		// followed by a tail that takes the same tokens: ( ( @a? b )! )? @a*   /   ( ( @a? ( b @a b )? )! c )? @a*
		a, b := c.leaf(), c.leaf()
		b = c.otherLiteral(a)
		body := Seq(Group("?", Cap(a)), b)
		if c.draw(0, 2, "nonemptydeep") == 0 {
			body = Seq(Group("?", Cap(a)), Group("?", Seq(clone(b), Cap(clone(a)), clone(b))))
		}
		ne := Group("!", body)
		ne.Style = c.draw(0, 5, "gstyle")
		var inner *Expr = ne
		if body.Kids[1].Kind == KGroup {
			inner = Seq(ne, c.otherLiteral(b))
		}
		opt := Group("?", inner)
		opt.Style = c.draw(0, 5, "gstyle")
		tail := Group("*", Cap(clone(a)))
		if nn {
			tail = Group("+", Cap(clone(a)))
		}
		return Seq(opt, tail)
	case 15:
		// a lookahead group or a negation whose body holds a group that fails several tokens in (the failure is
		// swallowed and the parse goes on), then choice points nested three deep, the innermost of which captures a
		// token and is abandoned:  (?! ( Ident "(" ";" )+ )  ( @Ident ( "(" @Ident ( @"-" ";" )? )? ( "-" @Int )? ")"? )+
		deep := Group(rapid.SampledFrom([]string{"+", "?", "*"}).Draw(c.t, "swallowmod"), Seq(Ref("Ident"), Lit("("), Lit(";")))
		var pre *Expr
		switch c.draw(0, 2, "swallowkind") {
		case 0:
			// (Look's first argument is "negative")
			pre = Look(false, deep) // (?= ( ... )? ): matches whatever the group does with its failure
			if deep.Mod == "+" {
				pre = Look(true, deep) // (?! ( ... )+ ): succeeds because the group fails
			}
		case 1:
			pre = Look(true, Seq(deep, Lit("+")))
		default:
			pre = Cap(Not(Seq(deep, Lit("+"))))
		}
		item := Seq(Cap(Ref("Ident")),
			Group("?", Seq(Lit("("), Cap(Ref("Ident")), Group("?", Seq(Cap(Lit("-")), Lit(";"))))),
			Group("?", Seq(Lit("-"), Cap(Ref("Int")))),
			Group("?", Lit(")")))
		return Seq(pre, Group("+", item))
	case 14:
		// a user-implemented production that refuses some tokens, tried again and again next to an alternative that
		// takes what it refuses: ( @R | @Ident )+ -- what an attempt that refused did to its value is gone with it
		g := Group("+", Alt(&Expr{Kind: KPars, S: "R", Prod: -1, Uni: -1}, Cap(Ref("Ident"))))
		g.Style = c.draw(0, 5, "gstyle")
		return g
	case 13:
		// a + group over a choice that commits at small lookahead, with a way around the group that takes the same
		// tokens: ( ( bad | base )+ | base )  or  ( ( bad | base )+ )? base -- a commit made inside the first, mandatory
		// iteration counts one level up like any other
		plus := Group("+", Alt(bad, base))
		plus.Style = c.draw(0, 5, "gstyle")
		if c.draw(0, 2, "plusopt") == 0 {
			opt := Group("?", plus)
			return Seq(opt, clone(base))
		}
		return Alt(plus, clone(base))
	case 12:
		// a choice inside a (...)! group (or a plain group) that commits at small lookahead, next to an alternative
		// that would take the same tokens: ( ( bad | base )! | any+ )
		inner := Group(rapid.SampledFrom([]string{"!", "!", ""}).Draw(c.t, "commitmod"), Alt(bad, base))
		inner.Style = c.draw(0, 5, "gstyle")
		any := Alt(Ref("Ident"), Ref("Int"), Lit(";"), Lit("+"), Lit("-"), Lit("("), Lit(")"))
		return Alt(inner, Group("+", Cap(any)))
	case 11:
		// a + group whose first iteration fails after its first term, first thing inside an optional / repeated
		// group (or bare), followed by a tail that takes the same tokens: ( ( @a b )+ )? @a*
		a, b := c.leaf(), c.leaf()
		var e *Expr = Group("+", Seq(Cap(a), b))
		e.Style = c.draw(0, 5, "gstyle")
		switch c.draw(0, 2, "pluswrap") {
		case 0:
			e = Group("?", e)
		case 1:
			e = Group("*", Seq(e, Group("?", Lit(";"))))
		}
		tail := Group("*", Cap(clone(a)))
		if nn {
			tail = Group("+", Cap(clone(a)))
		}
		return Seq(e, tail)
	case 10:
		// a nested node of the enclosing production's own type completes inside an alternative that is then
		// abandoned: ( @a "(" @@U ")" | @a "(" @@U "]" | @b ) with the production itself a member of U
		u := c.draw(1, c.nu-1, "trapunion")
		if c.force == nil {
			c.force = map[int][]int{}
		}
		c.force[u] = append(c.force[u], c.cur())
		a, b := c.leaf(), c.leaf()
		open, cl1 := Lit("("), Lit(")")
		cl2 := c.otherLiteral(cl1)
		return Alt(Seq(Cap(a), open, SubU(u), cl1), Seq(Cap(clone(a)), clone(open), SubU(u), cl2), Cap(b))
	case 9:
		// a failure deep inside a repeated item, followed by a tail that accepts any token: if the failure is
		// swallowed anywhere on the way up, the tail mops up the rest and the parse wrongly succeeds
		var x *Expr
		switch {
		case c.o.Parseables && c.g.Profile == "" && c.draw(0, 3, "mopnest") == 0:
			x = &Expr{Kind: KPars, S: "N", Prod: -1, Uni: -1} // an embedded parser that can fail several tokens in
		case c.nu > 1 && c.draw(0, 1, "mopuni") == 0:
			x = SubU(c.draw(1, c.nu-1, "uni"))
		default:
			x = c.subProd(true, depth)
		}
		if x == nil {
			x = c.simpleSeq(depth)
		}
		inner := Seq(x, rapid.SampledFrom([]*Expr{Lit(";"), Lit(";"), Cap(Lit(";"))}).Draw(c.t, "moptail"))
		inner.ung = x.Kind == KSub && x.Uni >= 0
		mod := rapid.SampledFrom([]string{"*", "*", "?", "+"}).Draw(c.t, "mopmod")
		if nn {
			mod = "+"
		}
		rep := Group(mod, inner)
		rep.Style = c.draw(0, 5, "gstyle")
		any := Alt(Ref("Ident"), Ref("Int"), Lit(";"), Lit("+"), Lit("-"), Lit("("), Lit(")"))
		return Seq(rep, Group("*", Cap(any)))
	case 8:
		// inside one capture an optional attempt starts by matching an elided token the grammar names and is
		// then abandoned; the accepted path skips that token: @( (Comment x)? y )
		el := Ref(rapid.SampledFrom(c.g.Elide).Draw(c.t, "trapelided"))
		if len(c.g.Prods) < c.o.MaxProds+2 && c.draw(0, 2, "elidedprod") == 0 {
			// the same production tried at one non-elided position but two raw positions: ( El @@P | @@P ) with
			// P = El x -- after the explicit El it fails, in front of it it matches
			np := &Prod{Expr: Seq(clone(el), Cap(c.leaf())), PosStyle: 3}
			c.g.Prods = append(c.g.Prods, np)
			c.nullP = append(c.nullP, false)
			pi := len(c.g.Prods) - 1
			return Alt(Seq(el, SubP(pi)), SubP(pi))
		}
		if c.draw(0, 1, "elidedlook") == 0 {
			// inside one capture a lookahead only looks at an elided token the grammar names; what is captured is
			// what is consumed after it: @( (?= Comment) y )
			cp := Cap(Seq(Look(false, el), c.leaf()))
			cp.T = "tok"
			return cp
		}
		x := c.leaf()
		y := c.otherLiteral(x)
		att := Group(rapid.SampledFrom([]string{"?", "*"}).Draw(c.t, "capmod"), Seq(el, x))
		att.Style = c.draw(0, 5, "gstyle")
		body := []*Expr{att, y}
		if rapid.Bool().Draw(c.t, "eltail") {
			body = append(body, c.leaf())
		}
		return Cap(Seq(body...))
	case 7:
		// the value path of one capture: @( (a b)* ) followed by `a` and a token other than b -- the last
		// iteration matches `a`, fails and is abandoned; its token must not show in the captured value
		a, b := c.leaf(), c.leaf()
		var pre []*Expr
		if c.draw(0, 2, "cappre") == 0 {
			pre = append(pre, c.leaf())
		}
		rep := Group(rapid.SampledFrom([]string{"*", "+", "*", "?"}).Draw(c.t, "capmod"), Seq(a, b))
		rep.Style = c.draw(0, 5, "gstyle")
		cont := []*Expr{Cap(clone(a)), c.otherLiteral(b)}
		if rapid.Bool().Draw(c.t, "capplain") {
			cont[0] = clone(a)
			cont[1] = Cap(cont[1])
		}
		return Seq(Cap(Seq(append(pre, rep)...)), cont[0], cont[1])
	case 0:
		return Alt(bad, base)
	case 1:
		g := Group("?", bad)
		g.Style = c.draw(0, 5, "gstyle")
		return Seq(g, base)
	case 2:
		g := Group("*", bad)
		g.Style = c.draw(0, 5, "gstyle")
		return Seq(g, base)
	case 3:
		// three alternatives: the failing one in the middle
		return Alt(Seq(c.otherLiteral(Lit("\x00")), Lit(";")), bad, base)
	case 4:
		return Seq(Look(false, clone(base)), base) // positive lookahead that matches: its captures are discarded
	case 5:
		return Seq(Look(true, bad), base) // negative lookahead whose body fails part-way
	default:
		// ~( bad ) consumes one token when bad does not match; continue with the rest of base
		rest := clone(base)
		first := rest.Kids[0]
		var leaves []*Expr
		flatLeaves(first, &leaves)
		if len(leaves) != 1 || len(rest.Kids) < 2 {
			return Alt(bad, base)
		}
		// inside ~ no captures/sub-productions are allowed by the generator contract? They are allowed by the
		// tag language; keep them: this is exactly "captures recorded inside a negation are discarded".
		if rapid.Bool().Draw(c.t, "capneg") {
			rest.Kids[0] = Cap(Not(bad))
		} else {
			rest.Kids[0] = Not(bad)
		}
		return rest
	}
}

// ---------------------------------------------------------------------------------------------
// field assignment (fields are filled in tag order, so indexes must be monotone in token order)

func assignFields(t *rapid.T, p *Prod, e *Expr, pi int) {
	var walk func(e *Expr, inNeg bool)
	walk = func(e *Expr, inNeg bool) {
		switch e.Kind {
		case KCap:
			kinds := []FKind{FStr, FStr, FStrs, FStrs, FBool, FPStr, FTok, FToks, FNStr, FNBool, FPBool, FCapt, FCaptP, FCapts, FText}
			if numLike(e.Kids[0]) {
				kinds = []FKind{FInt, FInt, FInts, FInts, FInt8, FStr, FStrs, FToks}
			} else if rapid.IntRange(0, 19).Draw(t, "numAnyway") == 0 {
				kinds = []FKind{FInt, FInts} // conversion error path
			}
			if e.T == "tok" {
				kinds = []FKind{FTok, FToks, FTok} // the shape is about which tokens the capture covers
			}
			if e.T == "strs" || e.T == "strs+" {
				kinds = []FKind{FStrs} // the shape is about the order of the elements of one slice
			}
			k := rapid.SampledFrom(kinds).Draw(t, "fk")
			n := len(p.Fields)
			if n > 0 && rapid.IntRange(0, 3).Draw(t, "samekind") == 0 {
				// several captures accumulating in one field: take the previous field's kind if this capture may have it
				for _, cand := range kinds {
					if cand == p.Fields[n-1].Kind {
						k = cand
					}
				}
			}
			if n > 0 && p.Fields[n-1].Kind == k && (e.T == "strs+" || rapid.Bool().Draw(t, "reuse")) {
				e.Field = n - 1
			} else {
				p.Fields = append(p.Fields, Field{Kind: k, Prod: -1, Uni: -1})
				e.Field = n
			}
			// a capture may contain captures only through ~( ) / lookahead bodies built by traps
			for _, k := range e.Kids {
				walk(k, true)
			}
			return
		case KPars:
			k := rapid.SampledFrom([]FKind{FPars, FParsV, FParss, FCust, FCusts}).Draw(t, "pk")
			if e.S == "R" {
				k = FParsR
			}
			if e.S == "N" {
				k = FParsN
			}
			n := len(p.Fields)
			if n > 0 && p.Fields[n-1].Kind == k && rapid.Bool().Draw(t, "reuse") {
				e.Field = n - 1
			} else {
				p.Fields = append(p.Fields, Field{Kind: k, Prod: -1, Uni: -1})
				e.Field = n
			}
			return
		case KSub:
			n := len(p.Fields)
			if e.Uni >= 0 {
				k := rapid.SampledFrom([]FKind{FUni, FUnis}).Draw(t, "uk")
				if n > 0 && p.Fields[n-1].Kind == k && p.Fields[n-1].Uni == e.Uni && rapid.Bool().Draw(t, "reuse") {
					e.Field = n - 1
				} else {
					p.Fields = append(p.Fields, Field{Kind: k, Uni: e.Uni, Prod: -1})
					e.Field = n
				}
				return
			}
			subKinds := []FKind{FSub, FSubs, FSubV, FSubVs}
			if e.Prod <= pi {
				subKinds = []FKind{FSub, FSubs} // (possibly) recursive reference: pointers only
			}
			if e.T == "subs" || e.T == "subs+" {
				subKinds = []FKind{FSubs} // the shape is about the order of the nodes of one slice
			}
			k := rapid.SampledFrom(subKinds).Draw(t, "sk")
			if n > 0 && p.Fields[n-1].Kind == k && p.Fields[n-1].Prod == e.Prod && (e.T == "subs+" || rapid.Bool().Draw(t, "reuse")) {
				e.Field = n - 1
			} else {
				p.Fields = append(p.Fields, Field{Kind: k, Prod: e.Prod, Uni: -1})
				e.Field = n
			}
			return
		}
		for _, k := range e.Kids {
			walk(k, inNeg)
		}
	}
	walk(e, false)
}

var Lookaheads = []int{0, 1, 1, 2, 3, 5, 99999, -1}

// GenGrammar draws a grammar.
func GenGrammar(t *rapid.T, o GenOpts) *Grammar {
	if o.MaxProds == 0 {
		o.MaxProds = 5
	}
	if o.MaxDepth == 0 {
		o.MaxDepth = 4
	}
	if o.Statics && rapid.IntRange(0, 19).Draw(t, "static") == 0 {
		sg := StaticGrammars()
		g := sg[rapid.IntRange(0, len(sg)-1).Draw(t, "staticgrammar")]
		g.Lookahead = rapid.SampledFrom(Lookaheads).Draw(t, "k")
		es := g.Prof().ElideSets
		g.Elide = es[rapid.IntRange(0, len(es)-1).Draw(t, "elideset")]
		return g
	}
	g := &Grammar{Lookahead: rapid.SampledFrom(Lookaheads).Draw(t, "k")}
	if rapid.Bool().Draw(t, "ci") {
		g.CI = []string{"Ident"}
	}
	if o.Profiles && rapid.IntRange(0, 3).Draw(t, "profile") == 0 {
		g.Profile = "scanner"
		o.NameElided = false
	} else if o.Profiles && rapid.IntRange(0, 5).Draw(t, "customlexer") == 0 {
		g.Profile = "custom"
	}
	es := g.Prof().ElideSets
	g.Elide = es[rapid.IntRange(0, len(es)-1).Draw(t, "elideset")]
	if o.BadElide && rapid.IntRange(0, 24).Draw(t, "badelide") == 0 {
		g.ExtraElide = []string{rapid.SampledFrom([]string{"Whitespace", "Nope", "EOF", "EOL", "comment"}).Draw(t, "badelidename")}
	}
	nu := rapid.IntRange(1, 4).Draw(t, "nunions")
	c := &genCtx{t: t, g: g, o: o, nu: nu}
	c.newProd(true, rapid.IntRange(1, o.MaxDepth).Draw(t, "depth"))
	// extra top-level productions (union members that are not reachable by @@ from P0)
	extra := rapid.IntRange(0, 2).Draw(t, "extraprods")
	for i := 0; i < extra && len(g.Prods) < o.MaxProds; i++ {
		c.newProd(true, rapid.IntRange(1, o.MaxDepth-1).Draw(t, "xdepth"))
	}
	// unions: members are non-nullable productions
	var nonNull []int
	for i := range g.Prods {
		if !c.nullP[i] {
			nonNull = append(nonNull, i)
		}
	}
	g.Unions = make([]Union, nu)
	for u := 0; u < nu; u++ {
		n := rapid.IntRange(1, 3).Draw(t, "nmembers")
		seen := map[int]bool{}
		if u == 0 {
			// the root union starts with P0 most of the time
			if rapid.IntRange(0, 3).Draw(t, "rootfirst") > 0 {
				g.Unions[0].Members = []int{0}
				seen[0] = true
			}
		}
		for i := 0; i < n; i++ {
			m := nonNull[rapid.IntRange(0, len(nonNull)-1).Draw(t, "member")]
			if !seen[m] {
				seen[m] = true
				g.Unions[u].Members = append(g.Unions[u].Members, m)
			}
		}
		for _, m := range c.force[u] {
			if !seen[m] && m < len(c.nullP) && !c.nullP[m] {
				seen[m] = true
				g.Unions[u].Members = append(g.Unions[u].Members, m)
			}
		}
		ptr := false
		if rapid.Bool().Draw(t, "uptr") {
			ptr = true
		}
		for range g.Unions[u].Members {
			pm := ptr
			if o.MixedUnion && rapid.IntRange(0, 3).Draw(t, "mixptr") == 0 {
				pm = !pm
			}
			g.Unions[u].Ptr = append(g.Unions[u].Ptr, pm)
		}
	}
	if lr, _ := g.LeftRecursive(); lr {
		for _, p := range g.Prods {
			p.Expr.Walk(func(e *Expr) {
				if e.ung {
					e.Kids = append([]*Expr{Lit("(")}, e.Kids...)
					e.ung = false
				}
			})
		}
	}
	if rapid.IntRange(0, 11).Draw(t, "eofterminator") == 0 {
		// the root ends with a terminator that may be the end of the input itself: ... ( ";" | EOF )
		p0 := g.Prods[0]
		p0.Expr = Seq(p0.Expr, Alt(Lit(";"), Ref("EOF")))
	}
	for i, p := range g.Prods {
		assignFields(t, p, p.Expr, i)
		if o.Embeds && len(p.Fields) > 0 && rapid.IntRange(0, 2).Draw(t, "embed") == 0 {
			p.Embed = rapid.IntRange(1, len(p.Fields)).Draw(t, "nembed")
		}
		if o.DeepEmbeds && len(p.Fields) > 0 && rapid.IntRange(0, 5).Draw(t, "deepembed") == 0 {
			p.Embed = rapid.IntRange(1, len(p.Fields)).Draw(t, "nembed")
			p.EmbedDepth = rapid.SampledFrom([]int{1, 2, 3, 3, 4}).Draw(t, "embeddepth")
		}
	}
	return g
}

// ---------------------------------------------------------------------------------------------
// input sampling

// Sample appends a random derivation of e to out.
func Sample(t *rapid.T, g *Grammar, e *Expr, out *[]VTok, fuel *int) {
	*fuel--
	if *fuel < 0 {
		return
	}
	switch e.Kind {
	case KLit:
		s := e.S
		ty := e.T
		if ty == "" {
			ty = g.Prof().TypeOfText(s)
		}
		if g.IsCI(ty) && rapid.IntRange(0, 3).Draw(t, "flip") == 0 {
			if s == strings.ToLower(s) {
				s = strings.ToUpper(s)
			} else {
				s = strings.ToLower(s)
			}
			if SpecialFold(s) != s && rapid.Bool().Draw(t, "specialfold") {
				s = SpecialFold(s) // the same word with letters that fold to s / k but are longer in UTF-8
			}
		}
		*out = append(*out, VTok{Type: ty, Value: s})
	case KRef:
		c := g.Prof().vocabOf(e.T)
		if e.T == "EOF" {
			return // the end of the input: nothing to write
		}
		if len(c) == 0 {
			if e.T == "Comment" {
				*out = append(*out, VTok{Type: "Comment", Value: "#c#"})
			} else {
				*out = append(*out, VTok{Type: "WS", Value: " "})
			}
			return
		}
		*out = append(*out, rapid.SampledFrom(c).Draw(t, "reftok"))
	case KSeq:
		for _, k := range e.Kids {
			Sample(t, g, k, out, fuel)
		}
	case KAlt:
		// later alternatives are preferred slightly: they are the ones that need earlier ones to be abandoned
		n := len(e.Kids)
		i := rapid.IntRange(0, n).Draw(t, "alt")
		if i >= n {
			i = n - 1
		}
		Sample(t, g, e.Kids[i], out, fuel)
	case KGroup:
		n := 1
		switch e.Mod {
		case "?":
			n = rapid.IntRange(0, 1).Draw(t, "q")
		case "*":
			n = rapid.IntRange(0, 3).Draw(t, "star")
		case "+":
			n = rapid.IntRange(1, 3).Draw(t, "plus")
		}
		for i := 0; i < n; i++ {
			Sample(t, g, e.Kids[0], out, fuel)
		}
	case KCap:
		Sample(t, g, e.Kids[0], out, fuel)
	case KSub:
		if e.Uni >= 0 {
			ms := g.Unions[e.Uni].Members
			Sample(t, g, g.Prods[ms[rapid.IntRange(0, len(ms)-1).Draw(t, "um")]].Expr, out, fuel)
		} else {
			Sample(t, g, g.Prods[e.Prod].Expr, out, fuel)
		}
	case KLook:
		// a positive lookahead for an elided token the grammar names: the token has to be there
		if b := e.Kids[0]; !e.Neg && b.Kind == KRef && g.IsElided(b.T) {
			Sample(t, g, b, out, fuel)
		}
	case KNeg, KPars:
		if e.Kind == KPars && e.S == "N" {
			*out = append(*out, rapid.SampledFrom(g.Prof().vocabOf("Ident")).Draw(t, "nestk"), VTok{Type: g.Prof().TypeOfText("+"), Value: "+"},
				rapid.SampledFrom(g.Prof().vocabOf("Int")).Draw(t, "nestv"), VTok{Type: g.Prof().TypeOfText("+"), Value: "+"})
			return
		}
		v := rapid.SampledFrom(g.Prof().Vocab).Draw(t, "negtok")
		if e.Kind == KPars && e.S == "R" && strings.ContainsAny(v.Value, "bB") && rapid.IntRange(0, 3).Draw(t, "refused") > 0 {
			v = VTok{Type: "Int", Value: "12"} // the rewinding production does not take tokens spelled with a b (one in four stays: a refusal)
		}
		*out = append(*out, v)
	}
}

// GenInput draws a token sequence: a random derivation of the root followed by 0-2 token-level
// mutations (near misses), or occasionally token soup.
func GenInput(t *rapid.T, g *Grammar) []VTok {
	var toks []VTok
	if rapid.IntRange(0, 19).Draw(t, "soup") == 0 {
		n := rapid.IntRange(0, 8).Draw(t, "soupn")
		for i := 0; i < n; i++ {
			toks = append(toks, rapid.SampledFrom(g.Prof().Vocab).Draw(t, "souptok"))
		}
		return toks
	}
	fuel := 80
	ms := g.Unions[0].Members
	root := ms[0]
	if len(ms) > 1 {
		root = ms[rapid.IntRange(0, len(ms)-1).Draw(t, "rootm")]
	}
	Sample(t, g, g.Prods[root].Expr, &toks, &fuel)
	if len(toks) > 40 {
		toks = toks[:40]
	}
	nm := rapid.SampledFrom([]int{0, 0, 0, 1, 1, 2}).Draw(t, "nmut")
	for i := 0; i < nm; i++ {
		switch rapid.IntRange(0, 5).Draw(t, "mut") {
		case 5:
			// the same word in the other case: another word unless its token type is matched case-insensitively
			if len(toks) > 0 {
				j := rapid.IntRange(0, len(toks)-1).Draw(t, "flipat")
				if v := toks[j].Value; SpecialFold(v) != v && rapid.Bool().Draw(t, "specialfold") {
					toks[j].Value = SpecialFold(v)
				} else if v != strings.ToUpper(v) {
					toks[j].Value = strings.ToUpper(v)
				} else {
					toks[j].Value = strings.ToLower(v)
				}
			}
		case 0:
			if len(toks) > 0 {
				j := rapid.IntRange(0, len(toks)-1).Draw(t, "del")
				toks = append(toks[:j:j], toks[j+1:]...)
			}
		case 1:
			j := rapid.IntRange(0, len(toks)).Draw(t, "ins")
			v := rapid.SampledFrom(g.Prof().Vocab).Draw(t, "insv")
			toks = append(toks[:j:j], append([]VTok{v}, toks[j:]...)...)
		case 2:
			if len(toks) > 0 {
				j := rapid.IntRange(0, len(toks)-1).Draw(t, "rep")
				toks[j] = rapid.SampledFrom(g.Prof().Vocab).Draw(t, "repv")
			}
		case 3:
			if len(toks) > 0 {
				j := rapid.IntRange(0, len(toks)-1).Draw(t, "dup")
				toks = append(toks[:j+1:j+1], toks[j:]...)
			}
		case 4:
			if len(toks) > 0 {
				toks = toks[:rapid.IntRange(0, len(toks)-1).Draw(t, "trunc")]
			}
		}
	}
	return toks
}

// ---------------------------------------------------------------------------------------------
// rendering token sequences to text with elided runs

func drawSep(t *rapid.T, g *Grammar, label string) string {
	n := rapid.IntRange(1, 2).Draw(t, label+"n")
	var sb strings.Builder
	for i := 0; i < n; i++ {
		p := g.Prof()
		if (g.IsElided("Comment") || p.Name == "scanner") && rapid.IntRange(0, 2).Draw(t, label+"c?") == 0 {
			sb.WriteString(rapid.SampledFrom(p.CommentSeps).Draw(t, label+"c"))
		} else {
			sb.WriteString(rapid.SampledFrom(p.WSSeps).Draw(t, label+"w"))
		}
	}
	return sb.String()
}

// Render writes the tokens with generated elided runs: possibly at the start, between any two
// tokens (always where adjacent tokens would otherwise merge) and at the end.
// Tokens of elided types that occur in toks (grammars naming elided types) are written as they are.
func Render(t *rapid.T, g *Grammar, toks []VTok, label string) string {
	var sb strings.Builder
	if rapid.Bool().Draw(t, label+"lead") {
		sb.WriteString(drawSep(t, g, label+"leadsep"))
	}
	for i, tk := range toks {
		if i > 0 {
			need := g.Prof().needSep(toks[i-1], tk)
			if need || rapid.IntRange(0, 2).Draw(t, label+"sep?") == 0 {
				sb.WriteString(drawSep(t, g, label+"sep"))
			}
		}
		sb.WriteString(tk.Value)
	}
	if rapid.Bool().Draw(t, label+"trail") {
		sb.WriteString(drawSep(t, g, label+"trailsep"))
	}
	return sb.String()
}

// RenderMinimal writes the tokens with single spaces only where needed.
func RenderMinimal(g *Grammar, toks []VTok) string {
	var sb strings.Builder
	for i, tk := range toks {
		if i > 0 && g.Prof().needSep(toks[i-1], tk) {
			sb.WriteByte(' ')
		}
		sb.WriteString(tk.Value)
	}
	return sb.String()
}
