package gram

import "pgregory.net/rapid"

// Nullable computes, for every production, whether it can match without consuming a token
// (least fix-point).
func (g *Grammar) Nullable() []bool {
	null := make([]bool, len(g.Prods))
	var exprNull func(e *Expr) bool
	exprNull = func(e *Expr) bool {
		switch e.Kind {
		case KRef:
			return e.T == "EOF" // a reference to EOF matches at the end of input without consuming
		case KLit:
			return e.S == "" && e.T == "" // the empty untyped literal matches the EOF token without consuming
		case KNeg, KPars:
			return false
		case KLook:
			return true
		case KSeq:
			for _, k := range e.Kids {
				if !exprNull(k) {
					return false
				}
			}
			return true
		case KAlt:
			for _, k := range e.Kids {
				if exprNull(k) {
					return true
				}
			}
			return false
		case KGroup:
			switch e.Mod {
			case "?", "*":
				return true
			case "!":
				// non-empty means "yielded a value": a capture or nested production that matched nothing yields one
				return yieldsNullWith(g, null, e.Kids[0])
			}
			return exprNull(e.Kids[0])
		case KCap:
			return exprNull(e.Kids[0])
		case KSub:
			if e.Uni >= 0 {
				for _, m := range g.Unions[e.Uni].Members {
					if null[m] {
						return true
					}
				}
				return false
			}
			return null[e.Prod]
		}
		return false
	}
	for changed := true; changed; {
		changed = false
		for i, p := range g.Prods {
			if !null[i] && exprNull(p.Expr) {
				null[i] = true
				changed = true
			}
		}
	}
	return null
}

// LeftRecursive decides, independently of the library, whether some production reachable from the
// root can re-enter itself before consuming a token. It returns the index of such a production.
func (g *Grammar) LeftRecursive() (bool, int) {
	null := g.Nullable()
	exprNull := func(e *Expr) bool { return exprNullWith(g, null, e) }
	// left[p] = productions reachable at the left edge of production p
	left := make([]map[int]bool, len(g.Prods))
	var edge func(e *Expr, out map[int]bool)
	edge = func(e *Expr, out map[int]bool) {
		switch e.Kind {
		case KSeq:
			for _, k := range e.Kids {
				edge(k, out)
				if !exprNull(k) {
					return
				}
			}
		case KAlt:
			for _, k := range e.Kids {
				edge(k, out)
			}
		case KGroup, KCap, KNeg, KLook:
			edge(e.Kids[0], out)
		case KSub:
			if e.Uni >= 0 {
				for _, m := range g.Unions[e.Uni].Members {
					out[m] = true
				}
			} else {
				out[e.Prod] = true
			}
		}
	}
	for i, p := range g.Prods {
		left[i] = map[int]bool{}
		edge(p.Expr, left[i])
	}
	// productions reachable from the root by any reference
	reach := map[int]bool{}
	var walk func(p int)
	walk = func(p int) {
		if reach[p] {
			return
		}
		reach[p] = true
		g.Prods[p].Expr.Walk(func(e *Expr) {
			if e.Kind == KSub {
				if e.Uni >= 0 {
					for _, m := range g.Unions[e.Uni].Members {
						walk(m)
					}
				} else {
					walk(e.Prod)
				}
			}
		})
	}
	for _, m := range g.Unions[0].Members {
		walk(m)
	}
	for p := range g.Prods {
		if !reach[p] {
			continue
		}
		seen := map[int]bool{}
		stack := []int{}
		for q := range left[p] {
			stack = append(stack, q)
		}
		for len(stack) > 0 {
			q := stack[len(stack)-1]
			stack = stack[:len(stack)-1]
			if q == p {
				return true, p
			}
			if seen[q] {
				continue
			}
			seen[q] = true
			for n := range left[q] {
				stack = append(stack, n)
			}
		}
	}
	return false, -1
}

// yieldsNullWith: can e match without consuming a token and still yield a value? That is what a ( ... )! group
// counts: a capture of something that matched nothing, a nested production that matched nothing, a reference to EOF
// and the empty literal all yield a value without consuming.
func yieldsNullWith(g *Grammar, null []bool, e *Expr) bool {
	switch e.Kind {
	case KRef, KLit, KCap, KSub:
		return exprNullWith(g, null, e)
	case KSeq:
		any := false
		for _, k := range e.Kids {
			if !exprNullWith(g, null, k) {
				return false
			}
			any = any || yieldsNullWith(g, null, k)
		}
		return any
	case KAlt:
		for _, k := range e.Kids {
			if yieldsNullWith(g, null, k) {
				return true
			}
		}
		return false
	case KGroup:
		return yieldsNullWith(g, null, e.Kids[0])
	}
	return false
}

func exprNullWith(g *Grammar, null []bool, e *Expr) bool {
	switch e.Kind {
	case KRef:
		return e.T == "EOF"
	case KLit:
		return e.S == "" && e.T == ""
	case KNeg, KPars:
		return false
	case KLook:
		return true
	case KSeq:
		for _, k := range e.Kids {
			if !exprNullWith(g, null, k) {
				return false
			}
		}
		return true
	case KAlt:
		for _, k := range e.Kids {
			if exprNullWith(g, null, k) {
				return true
			}
		}
		return false
	case KGroup:
		switch e.Mod {
		case "?", "*":
			return true
		case "!":
			return yieldsNullWith(g, null, e.Kids[0])
		}
		return exprNullWith(g, null, e.Kids[0])
	case KCap:
		return exprNullWith(g, null, e.Kids[0])
	case KSub:
		if e.Uni >= 0 {
			for _, m := range g.Unions[e.Uni].Members {
				if null[m] {
					return true
				}
			}
			return false
		}
		return null[e.Prod]
	}
	return false
}

// GenRecSystem draws a small system of mutually referring productions. Production k is referenced
// through its own union U(k+1) = {Pk} (interfaces are the only way to make reflect.StructOf types
// recursive); an optional extra union has several members. The placement of every reference is
// drawn from: head of the first / a later alternative, after a single-term or multi-term
// alternative, after optional / starred / lookahead prefixes, inside groups, +, !, ~, lookahead
// bodies, and their look-alikes in which a consuming term precedes the reference.
// placements records which placement kinds were used.
func GenRecSystem(t *rapid.T) (*Grammar, map[string]bool) {
	np := rapid.IntRange(1, 4).Draw(t, "np")
	g := &Grammar{Lookahead: rapid.SampledFrom([]int{1, 2, 99999}).Draw(t, "k"), Elide: []string{"WS"}}
	// any production of the system may be the one the grammar is built from (what Build sees first, and what is
	// still under construction while the others are finished, depends on it)
	g.Unions = append(g.Unions, Union{Members: []int{rapid.IntRange(0, np-1).Draw(t, "rootprod")}, Ptr: []bool{false}})
	for k := 0; k < np; k++ {
		g.Unions = append(g.Unions, Union{Members: []int{k}, Ptr: []bool{rapid.Bool().Draw(t, "uptr")}})
	}
	multi := -1
	if np >= 2 && rapid.Bool().Draw(t, "multi") {
		a := rapid.IntRange(0, np-1).Draw(t, "ma")
		b := rapid.IntRange(0, np-1).Draw(t, "mb")
		if a != b {
			g.Unions = append(g.Unions, Union{Members: []int{a, b}, Ptr: []bool{false, false}})
			multi = len(g.Unions) - 1
		}
	}
	// optional helper productions that can match nothing (Sign = "-"?; Signs = Sign Sign), each reachable
	// through its own union: a nullable *production* in front of a recursive reference
	nhelp := 0
	if len(g.Unions) <= 4 {
		nhelp = rapid.IntRange(0, 2).Draw(t, "nhelpers")
	}
	helperUnion := []int{}
	for h := 0; h < nhelp && len(g.Unions) < MaxUnions; h++ {
		helperUnion = append(helperUnion, len(g.Unions))
		g.Unions = append(g.Unions, Union{Members: []int{np + h}, Ptr: []bool{false}})
	}
	used := map[string]bool{}
	c := &genCtx{t: t, g: g}
	leaf := func() *Expr {
		l := c.leaf()
		if rapid.Bool().Draw(t, "capleaf") {
			return Cap(l)
		}
		return l
	}
	ref := func() *Expr {
		u := 1 + rapid.IntRange(0, np-1).Draw(t, "target")
		if multi >= 0 && rapid.IntRange(0, 4).Draw(t, "usemulti") == 0 {
			u = multi
			used["through_multi_member_union"] = true
		}
		s := SubU(u)
		switch rapid.IntRange(0, 9).Draw(t, "wrap") {
		case 0:
			used["in_group"] = true
			return Group("", s)
		case 1:
			used["in_optional"] = true
			return Group("?", s)
		case 2:
			used["in_star"] = true
			return Group("*", s)
		case 3:
			used["in_plus"] = true
			return Group("+", s)
		case 4:
			used["in_nonempty"] = true
			return Group("!", s)
		case 5:
			used["in_negation"] = true
			return Not(s)
		case 6:
			used["in_lookahead"] = true
			return Seq(Look(rapid.Bool().Draw(t, "lneg"), s), Lit(";"))
		case 7:
			used["in_nested_alternative"] = true
			return Group("", Alt(Lit("("), s))
		}
		return s
	}
	nullablePrefix := func() *Expr {
		if len(helperUnion) > 0 && rapid.IntRange(0, 2).Draw(t, "usehelper") == 0 {
			used["after_nullable_production"] = true
			u := helperUnion[rapid.IntRange(0, len(helperUnion)-1).Draw(t, "helper")]
			if rapid.Bool().Draw(t, "twice") {
				used["after_nullable_production_mentioned_twice"] = true
				return Seq(SubU(u), SubU(u))
			}
			return SubU(u)
		}
		switch rapid.IntRange(0, 14).Draw(t, "np") {
		case 13, 14:
			// a ( ... )! group is satisfied by a value, not by a token: a capture of something optional that matched
			// nothing yields one -- ( @( x? ) )! , ( @( x* ) y? )!
			used["after_nonempty_group_satisfied_by_an_empty_capture"] = true
			body := Cap(Group(rapid.SampledFrom([]string{"?", "*"}).Draw(t, "necap"), c.leaf()))
			switch rapid.IntRange(0, 2).Draw(t, "netail") {
			case 0:
				return Group("!", Seq(body, Group("?", leaf())))
			case 1:
				return Group("!", Seq(Group("?", leaf()), Group("*", leaf()), body)) // the yielding element comes last
			}
			return Group("!", body)
		case 11, 12:
			// one or more of something optional, in the bracket spelling with the modifier right behind it: [ x ]+ , { x }+
			used["after_plus_of_bracket_group"] = true
			inner := Group(rapid.SampledFrom([]string{"?", "*"}).Draw(t, "bracketkind"), leaf())
			inner.Style = 1
			outer := Group("+", inner)
			outer.Style = 2
			return outer
		case 10:
			// the empty literal: takes any token, and at the end of the input the EOF token without consuming it
			used["after_empty_literal"] = true
			return Lit("")
		case 8, 9:
			// the optional part sits inside the capture: @( x? ), @( x* )
			used["after_capture_of_optional"] = true
			return Cap(Group(rapid.SampledFrom([]string{"?", "*"}).Draw(t, "capopt"), c.leaf()))
		case 6, 7:
			// a choice of which only one alternative can match nothing: ( x | y? ), ( y? | x )
			used["after_partly_nullable_choice"] = true
			a, b := leaf(), Group("?", leaf())
			if rapid.Bool().Draw(t, "nullfirst") {
				return Group("", Alt(b, a))
			}
			return Group("", Alt(a, b))
		case 5:
			used["after_EOF_reference"] = true
			return Ref("EOF")
		case 0:
			used["after_optional_prefix"] = true
			return Group("?", leaf())
		case 1:
			used["after_star_prefix"] = true
			return Group("*", leaf())
		case 2:
			used["after_lookahead_prefix"] = true
			return Look(rapid.Bool().Draw(t, "pneg"), c.leaf())
		case 3:
			used["after_optional_capture"] = true
			return Group("?", Cap(c.leaf()))
		default:
			used["after_bracket_optional"] = true
			o := Group("?", leaf())
			o.Style = 1
			return o
		}
	}
	for k := 0; k < np; k++ {
		na := rapid.IntRange(1, 3).Draw(t, "nalts")
		var alts []*Expr
		for a := 0; a < na; a++ {
			n := rapid.IntRange(1, 4).Draw(t, "nelems")
			consumeAt := rapid.IntRange(0, n-1).Draw(t, "consumeAt")
			var kids []*Expr
			for i := 0; i < n; i++ {
				switch {
				case i == consumeAt:
					if rapid.IntRange(0, 5).Draw(t, "nonemptyprefix") == 0 {
						// ( x* y? )! has a body that can match nothing, but the group itself cannot
						used["after_nonempty_group_of_optionals(look-alike)"] = true
						kids = append(kids, Group("!", Seq(Group("*", c.leaf()), Group("?", leaf()))))
					} else if rapid.IntRange(0, 7).Draw(t, "namedelided") == 0 {
						used["after_explicitly_matched_elided_token(look-alike)"] = true
						kids = append(kids, Ref("WS")) // an elided token the grammar asks for is consumed like any other
					} else if rapid.IntRange(0, 7).Draw(t, "typedempty") == 0 {
						used["after_typed_empty_literal(look-alike)"] = true
						kids = append(kids, TLit("", "Ident")) // "":Ident takes any Ident token
					} else if rapid.IntRange(0, 5).Draw(t, "negconsume") == 0 {
						used["after_negated_token(look-alike)"] = true
						kids = append(kids, Not(c.leaf())) // ~x consumes one token
					} else {
						kids = append(kids, leaf())
					}
				default:
					switch rapid.IntRange(0, 3).Draw(t, "ek") {
					case 0:
						kids = append(kids, nullablePrefix())
					case 1, 2:
						r := ref()
						if a > 0 && i == 0 {
							used["head_of_later_alternative"] = true
						}
						if a == 0 && i == 0 {
							used["head_of_first_alternative"] = true
						}
						if i > 0 && i > consumeAt {
							used["after_consuming_term(look-alike)"] = true
						}
						kids = append(kids, r)
					default:
						kids = append(kids, leaf())
					}
				}
			}
			if len(kids) == 1 {
				alts = append(alts, kids[0])
			} else {
				alts = append(alts, Seq(kids...))
			}
			if a == 0 && na > 1 && rapid.IntRange(0, 7).Draw(t, "nullalt") == 0 {
				// an earlier alternative that can match nothing (a lookahead guard, EOF, an optional): the later
				// alternatives are still alternatives
				used["after_alternative_that_can_match_nothing"] = true
				alts[0] = nullablePrefix()
			}
		}
		var e *Expr
		if len(alts) == 1 {
			e = alts[0]
		} else {
			e = Alt(alts...)
		}
		if !hasCapture(e) {
			e = Seq(e, Cap(Lit(";")))
		}
		g.Prods = append(g.Prods, &Prod{Expr: e, PosStyle: 3, TagStyle: rapid.IntRange(0, 1).Draw(t, "tagstyle")})
	}
	for h := range helperUnion {
		var e *Expr
		if h > 0 && rapid.Bool().Draw(t, "helperOfHelper") {
			e = Seq(SubU(helperUnion[h-1]), SubU(helperUnion[h-1])) // Signs = Sign Sign
		} else {
			e = Group("?", Cap(c.leaf()))
		}
		g.Prods = append(g.Prods, &Prod{Expr: e, PosStyle: 3})
	}
	for i, p := range g.Prods {
		assignFields(t, p, p.Expr, i)
	}
	return g, used
}
