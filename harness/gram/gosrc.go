package gram

import (
	"fmt"
	"strconv"
	"strings"

	"github.com/alecthomas/participle/v2/lexer"
)

// ProfileDef returns the lexer definition of a profile (used by emitted source).
func ProfileDef(name string) lexer.Definition { return profiles[name].Def }

// ProdName / UnionName / RootName are the Go (and EBNF) names used by GoSource.
func ProdName(prefix string, i int) string  { return fmt.Sprintf("%sP%d", prefix, i) }
func UnionName(prefix string, i int) string { return fmt.Sprintf("%sU%d", prefix, i) }
func RootName(prefix string) string         { return prefix + "Root" }

func (g *Grammar) goFieldType(prefix string, f Field) string {
	switch f.Kind {
	case FStr:
		return "string"
	case FStrs:
		return "[]string"
	case FBool:
		return "bool"
	case FPStr:
		return "*string"
	case FTok:
		return "lexer.Token"
	case FToks:
		return "[]lexer.Token"
	case FSub:
		return "*" + ProdName(prefix, f.Prod)
	case FSubs:
		return "[]*" + ProdName(prefix, f.Prod)
	case FSubV:
		return ProdName(prefix, f.Prod)
	case FSubVs:
		return "[]" + ProdName(prefix, f.Prod)
	case FUni:
		return UnionName(prefix, f.Uni)
	case FUnis:
		return "[]" + UnionName(prefix, f.Uni)
	case FNStr:
		return "gram.NamedString"
	case FNBool:
		return "gram.NamedBool"
	case FPBool:
		return "*bool"
	case FInt:
		return "int"
	case FInts:
		return "[]int"
	case FInt8:
		return "int8"
	case FPars:
		return "*gram.PTok"
	case FParsV:
		return "gram.PTok"
	case FParss:
		return "[]gram.PTok"
	case FCapt:
		return "gram.CapStr"
	case FCaptP:
		return "*gram.CapStr"
	case FCapts:
		return "[]gram.CapStr"
	case FText:
		return "gram.TextStr"
	case FParsR:
		return "*gram.PTokR"
	case FParsN:
		return "*gram.PNest"
	case FCust:
		return "gram.PI"
	case FCusts:
		return "[]gram.PI"
	}
	return "string"
}

// GoSource renders the grammar as Go source with named types (package-level declarations only):
// the types, and a function Build<prefix>() that builds the parser and returns its EBNF.
func (g *Grammar) GoSource(prefix string) string {
	var sb strings.Builder
	for u := range g.Unions {
		fmt.Fprintf(&sb, "type %s interface{}\n", UnionName(prefix, u))
	}
	fmt.Fprintf(&sb, "type %s struct {\n\tV %s `@@`\n}\n", RootName(prefix), UnionName(prefix, 0))
	for i, p := range g.Prods {
		tags := p.StructTags()
		name := ProdName(prefix, i)
		field := func(fi int) string {
			return fmt.Sprintf("\tF%d %s %s\n", fi, g.goFieldType(prefix, p.Fields[fi]), strconv.Quote(string(tags[fi])))
		}
		embed := p.Embed
		if embed > len(p.Fields) {
			embed = len(p.Fields)
		}
		embName := name + "Emb"
		if embed > 0 {
			fmt.Fprintf(&sb, "type %sEmb struct {\n", name)
			for fi := 0; fi < embed; fi++ {
				sb.WriteString(field(fi))
			}
			sb.WriteString("}\n")
			// one to three levels of embedding (derived from the production, so that a case replays the same way)
			for lvl := 2; lvl <= 1+(len(p.Fields)+i)%3; lvl++ {
				next := fmt.Sprintf("%sEmb%d", name, lvl)
				fmt.Fprintf(&sb, "type %s struct {\n\t%s\n}\n", next, embName)
				embName = next
			}
		}
		fmt.Fprintf(&sb, "type %s struct {\n", name)
		switch p.PosStyle {
		case 0:
			sb.WriteString("\tPos lexer.Position\n\tEndPos lexer.Position\n\tTokens []lexer.Token\n")
		case 1:
			sb.WriteString("\tgram.PosMixin\n")
		case 2:
			sb.WriteString("\tPos gram.MyPos\n\tEndPos gram.MyPos\n\tTokens []lexer.Token\n")
		case 4:
			sb.WriteString("\tgram.PosMixin\n\tPos lexer.Position\n\tEndPos lexer.Position\n\tTokens []lexer.Token\n")
		case 5:
			sb.WriteString("\tEndPos lexer.Position\n")
		case 6:
			sb.WriteString("\tPos lexer.Position\n")
		case 7:
			sb.WriteString("\tTokens []lexer.Token\n")
		}
		if embed > 0 {
			fmt.Fprintf(&sb, "\t%s\n", embName)
		}
		for fi := embed; fi < len(p.Fields); fi++ {
			sb.WriteString(field(fi))
		}
		sb.WriteString("}\n")
	}
	sb.WriteString(g.GoBuildFunc(prefix, "Build"+prefix, g.Unions))
	return sb.String()
}

// GoBuildFunc renders a function that builds the parser for the emitted types with the given
// union member lists and returns Parser.String().
func (g *Grammar) GoBuildFunc(prefix, fname string, unions []Union) string {
	var sb strings.Builder
	fmt.Fprintf(&sb, "func %s() (string, error) {\n", fname)
	fmt.Fprintf(&sb, "\tp, err := participle.Build[%s](participle.Lexer(gram.ProfileDef(%q)), participle.UseLookahead(%d), participle.ParseTypeWith(gram.ParsePI),\n", RootName(prefix), g.Profile, g.Lookahead)
	if len(g.Elide) > 0 {
		fmt.Fprintf(&sb, "\t\tparticiple.Elide(%s),\n", quoteList(g.Elide))
	}
	if len(g.CI) > 0 {
		fmt.Fprintf(&sb, "\t\tparticiple.CaseInsensitive(%s),\n", quoteList(g.CI))
	}
	for u, un := range unions {
		var ms []string
		for j, m := range un.Members {
			if j < len(un.Ptr) && un.Ptr[j] {
				ms = append(ms, "&"+ProdName(prefix, m)+"{}")
			} else {
				ms = append(ms, ProdName(prefix, m)+"{}")
			}
		}
		fmt.Fprintf(&sb, "\t\tparticiple.Union[%s](%s),\n", UnionName(prefix, u), strings.Join(ms, ", "))
	}
	sb.WriteString("\t)\n\tif err != nil {\n\t\treturn \"\", err\n\t}\n")
	// what the grammar's parser prints does not depend on parsers derived from it for inner productions
	sb.WriteString("\ts1 := p.String()\n")
	fmt.Fprintf(&sb, "\tif sp, err := participle.ParserForProduction[%s](p); err == nil {\n\t\t_ = sp.String()\n\t}\n", ProdName(prefix, len(g.Prods)-1))
	sb.WriteString("\tif s2 := p.String(); s2 != s1 {\n\t\treturn s1 + \"\\n\\nVERIF-STRING-CHANGED after ParserForProduction:\\n\" + s2, nil\n\t}\n")
	// ... nor on what the parser was used for in between: failed parses whose messages print parts of the grammar
	inputs := []string{"", "a", "1", "a 1", "1 a", "a a a a", "( a", "a )"}
	seenLit := map[string]bool{}
	for _, pr := range g.Prods {
		pr.Expr.Walk(func(e *Expr) {
			if e.Kind == KLit && e.S != "" && !seenLit[e.S] && len(seenLit) < 6 {
				seenLit[e.S] = true
				inputs = append(inputs, e.S, e.S+" a", e.S+" "+e.S, "a "+e.S+" 1")
			}
		})
	}
	fmt.Fprintf(&sb, "\tfor _, in := range []string{%s} {\n\t\tif _, err := p.ParseString(\"\", in); err != nil {\n\t\t\t_ = err.Error()\n\t\t}\n\t}\n", quoteList(inputs))
	sb.WriteString("\tif s3 := p.String(); s3 != s1 {\n\t\treturn s1 + \"\\n\\nVERIF-STRING-CHANGED after failed parses:\\n\" + s3, nil\n\t}\n")
	sb.WriteString("\treturn s1, nil\n}\n")
	return sb.String()
}

func quoteList(ss []string) string {
	out := make([]string, len(ss))
	for i, s := range ss {
		out[i] = strconv.Quote(s)
	}
	return strings.Join(out, ", ")
}
