package gram

import (
	"strings"
	"testing"
)

// the hand-written struct tags and the hand-written IR must describe the same grammar
func TestStaticGrammars(t *testing.T) {
	strip := func(s string) string { return strings.Join(strings.Fields(s), "") }
	for _, g := range StaticGrammars() {
		for pi, typ := range staticTypes[g.Static] {
			var fromType, fromIR string
			for i := 0; i < typ.NumField(); i++ {
				fromType += string(typ.Field(i).Tag)
			}
			for _, tag := range g.Prods[pi].StructTags() {
				fromIR += string(tag)
			}
			if strip(fromType) != strip(fromIR) {
				t.Errorf("%s production %d: tags %q, IR renders as %q", g.Static, pi, strip(fromType), strip(fromIR))
			}
		}
		if _, err := Build(g); err != nil {
			t.Errorf("%s: %v", g.Static, err)
		}
	}
}
