package gram

import (
	"fmt"
	"reflect"
	"strings"

	"github.com/alecthomas/participle/v2/lexer"
)

// Mismatch is one difference between the AST and the reference derivation.
type Mismatch struct {
	Path string
	Cat  string // dyn-type | value | nil | tok | tok-leading-elided | toks | toks-leading-elided | pos | endpos | tokens | leak
	Msg  string
}

func (m Mismatch) String() string { return fmt.Sprintf("%s [%s]: %s", m.Path, m.Cat, m.Msg) }

// Comparer walks an AST value and a derivation in lockstep.
type Comparer struct {
	B   *Built
	L   *Lexed
	Mis []Mismatch

	Values      bool // compare captured values (C01)
	Positions   bool // compare Pos / EndPos / Tokens (C11)
	NamesElided bool // the grammar names elided types: Pos/EndPos are outside C11's statement, only Tokens is checked
	NodesSeen   int
	PosNodes    int // nodes whose Pos/EndPos/Tokens were checked
	ElidedAdj   int // nodes with an elided token adjacent to a run boundary
}

func (c *Comparer) add(path, cat, format string, args ...any) {
	c.Mis = append(c.Mis, Mismatch{path, cat, fmt.Sprintf(format, args...)})
}

func tokEq(a, b lexer.Token) bool { return a.Type == b.Type && a.Value == b.Value && a.Pos == b.Pos }

func toksEq(a, b []lexer.Token) bool {
	if len(a) != len(b) {
		return false
	}
	for i := range a {
		if !tokEq(a[i], b[i]) {
			return false
		}
	}
	return true
}

func (c *Comparer) allElided(lo, hi int) bool {
	for i := lo; i < hi; i++ {
		if !c.L.Toks[i].Elided {
			return false
		}
	}
	return hi > lo
}

// unwrap resolves interface / pointer layers and checks the dynamic type of a union value.
func (c *Comparer) unwrap(v reflect.Value, n *Node, uni int, path string) (reflect.Value, bool) {
	if !v.IsValid() {
		// reflect.ValueOf(nil): an interface-typed root that was never written
		c.add(path, "nil", "no value at all, want production P%d", n.Prod)
		return v, false
	}
	if uni >= 0 {
		for v.Kind() == reflect.Interface {
			if v.IsNil() {
				c.add(path, "nil", "union value is nil, want production P%d", n.Prod)
				return v, false
			}
			v = v.Elem()
		}
		gotPtr := v.Kind() == reflect.Ptr
		wantPtr := false
		u := c.B.G.Unions[uni]
		for j, m := range u.Members {
			if m == n.Prod {
				wantPtr = j < len(u.Ptr) && u.Ptr[j]
				break
			}
		}
		if gotPtr != wantPtr {
			c.add(path, "dyn-type", "union U%d member P%d: value is pointer=%v but the member was registered as pointer=%v", uni, n.Prod, gotPtr, wantPtr)
		}
	}
	for v.Kind() == reflect.Ptr || v.Kind() == reflect.Interface {
		if v.IsNil() {
			c.add(path, "nil", "nil, want production P%d", n.Prod)
			return v, false
		}
		v = v.Elem()
	}
	if pi, ok := c.B.TypeIdx[v.Type()]; !ok || pi != n.Prod {
		c.add(path, "dyn-type", "dynamic type is production %d (known=%v), want P%d", pi, ok, n.Prod)
		return v, false
	}
	return v, true
}

func asPosition(v reflect.Value) lexer.Position {
	return v.Convert(tPos).Interface().(lexer.Position)
}

// Node compares the value v (struct, pointer or union interface) with derivation node n.
func (c *Comparer) Node(v reflect.Value, n *Node, uni int, path string) {
	v, ok := c.unwrap(v, n, uni, path)
	if !ok {
		return
	}
	c.NodesSeen++
	p := c.B.G.Prods[n.Prod]
	if c.Positions && p.PosStyle != 3 {
		c.positions(v, n, path)
	}
	if !c.Values {
		// still descend into children for positions
		for fi, f := range p.Fields {
			c.children(v, n, fi, f, path)
		}
		return
	}
	for fi, f := range p.Fields {
		c.field(v, n, fi, f, path)
	}
}

func (c *Comparer) positions(v reflect.Value, n *Node, path string) {
	raw := c.L.Raw
	c.PosNodes++
	want := raw[n.Start:n.End]
	hasTokens, hasPos, hasEnd := v.FieldByName("Tokens").IsValid(), v.FieldByName("Pos").IsValid(), v.FieldByName("EndPos").IsValid()
	if hasTokens {
		got := v.FieldByName("Tokens").Interface().([]lexer.Token)
		if !toksEq(got, want) {
			c.add(path, "tokens", "Tokens = %s, want the raw run %s", fmtToks(got), fmtToks(want))
		}
	}
	if n.End > n.Start && !c.NamesElided {
		first := n.Start
		for first < n.End && c.L.Toks[first].Elided {
			first++
		}
		if first > n.Start || (n.End < len(raw) && c.L.Toks[n.End].Elided) {
			c.ElidedAdj++
		}
		// the node's first consumed token: in a grammar that does not name elided types this is the first
		// non-elided token of its run
		firstConsumed := -1
		if len(n.Events) >= 0 {
			firstConsumed = c.firstConsumed(n)
		}
		if hasPos && firstConsumed >= 0 && !c.L.Toks[firstConsumed].Elided && first < n.End {
			pos := asPosition(v.FieldByName("Pos"))
			if pos != raw[first].Pos {
				c.add(path, "pos", "Pos = %v, want %v (first non-elided token of the node)", pos, raw[first].Pos)
			}
		}
		if hasEnd {
			end := asPosition(v.FieldByName("EndPos"))
			if end != raw[n.End].Pos {
				c.add(path, "endpos", "EndPos = %v, want %v (position right after the last consumed token)", end, raw[n.End].Pos)
			}
			if hasPos {
				pos := asPosition(v.FieldByName("Pos"))
				if firstConsumed >= 0 && !c.L.Toks[firstConsumed].Elided && (pos.Offset > end.Offset) {
					c.add(path, "pos", "Pos %v lies after EndPos %v", pos, end)
				}
			}
		}
	}
}

// firstConsumed returns the raw index of the first token consumed by node n (recorded by the model).
func (c *Comparer) firstConsumed(n *Node) int { return n.First }

func (c *Comparer) eventsFor(n *Node, fi int) []Event {
	var evs []Event
	for _, e := range n.Events {
		if e.Field == fi {
			evs = append(evs, e)
		}
	}
	return evs
}

func (c *Comparer) children(v reflect.Value, n *Node, fi int, f Field, path string) {
	fv := v.FieldByName(fmt.Sprintf("F%d", fi))
	fp := fmt.Sprintf("%s.F%d", path, fi)
	evs := c.eventsFor(n, fi)
	switch f.Kind {
	case FSub, FSubV, FUni:
		if len(evs) == 0 {
			return
		}
		if (f.Kind == FSub || f.Kind == FUni) && fv.IsNil() {
			return
		}
		c.Node(fv, evs[len(evs)-1].Sub, uniOf(f), fp)
	case FSubs, FSubVs, FUnis:
		if fv.Len() != len(evs) {
			return
		}
		for i, e := range evs {
			c.Node(fv.Index(i), e.Sub, uniOf(f), fmt.Sprintf("%s[%d]", fp, i))
		}
	}
}

func uniOf(f Field) int {
	if f.Kind == FUni || f.Kind == FUnis {
		return f.Uni
	}
	return -1
}

func (c *Comparer) field(v reflect.Value, n *Node, fi int, f Field, path string) {
	fv := v.FieldByName(fmt.Sprintf("F%d", fi))
	fp := fmt.Sprintf("%s.F%d", path, fi)
	evs := c.eventsFor(n, fi)
	raw := c.L.Raw
	switch f.Kind {
	case FStr, FPStr, FNStr:
		s := ""
		hasValue := false
		for _, e := range evs {
			s += strings.Join(e.Vals, "")
			if len(e.Vals) > 0 {
				hasValue = true
			}
		}
		if f.Kind == FPStr {
			if fv.IsNil() {
				if hasValue {
					c.add(fp, "nil", "nil pointer, want %q", s)
				}
				return
			}
			if len(evs) == 0 {
				c.add(fp, "value", "pointer set to %q although no accepted capture wrote the field", fv.Elem().String())
				return
			}
			fv = fv.Elem()
		}
		if fv.String() != s {
			c.add(fp, "value", "%q, want %q", fv.String(), s)
		}
	case FStrs:
		var all []string
		for _, e := range evs {
			all = append(all, e.Vals...)
		}
		got := fv.Interface().([]string)
		if len(got) != len(all) || strings.Join(got, "\x00") != strings.Join(all, "\x00") {
			c.add(fp, "value", "%q, want %q", got, all)
		}
	case FBool, FNBool, FPBool:
		b := false
		for _, e := range evs {
			if len(e.Vals) > 0 {
				b = true
			}
		}
		if f.Kind == FPBool {
			if fv.IsNil() {
				if b {
					c.add(fp, "nil", "nil pointer, want true")
				}
				return
			}
			if len(evs) == 0 {
				c.add(fp, "value", "pointer set although no accepted capture wrote the field")
				return
			}
			fv = fv.Elem()
		}
		if fv.Bool() != b {
			c.add(fp, "value", "%v, want %v", fv.Bool(), b)
		}
	case FCapt, FCaptP, FText:
		want, any := "", false
		for _, e := range evs {
			if len(e.Vals) == 0 {
				continue
			}
			any = true
			if f.Kind == FText {
				for _, v := range e.Vals {
					want += "<" + v + ">"
				}
			} else {
				want += CapCall(e.Vals)
			}
		}
		if f.Kind == FCaptP {
			if fv.IsNil() {
				if any {
					c.add(fp, "nil", "nil pointer, want calls %q", want)
				}
				return
			}
			if len(evs) == 0 {
				c.add(fp, "value", "pointer set although no accepted capture wrote the field")
				return
			}
			fv = fv.Elem()
		}
		if got := fv.Field(0).String(); got != want {
			c.add(fp, "value", "user-implemented capture saw %q, want %q", got, want)
		}
	case FCapts:
		var want []string
		for _, e := range evs {
			for _, v := range e.Vals {
				want = append(want, CapCall([]string{v}))
			}
		}
		var got []string
		for i := 0; i < fv.Len(); i++ {
			got = append(got, fv.Index(i).Field(0).String())
		}
		if len(got) != len(want) || strings.Join(got, "\x00") != strings.Join(want, "\x00") {
			c.add(fp, "value", "user-implemented captures saw %q, want %q", got, want)
		}
	case FParsN:
		var want []string
		for _, e := range evs {
			want = e.Vals // scalar: the last accepted match
		}
		var got []string
		if !fv.IsNil() {
			if in := fv.Elem().Field(0); !in.IsNil() {
				got = []string{in.Elem().Field(0).String(), in.Elem().Field(1).String()}
			} else {
				got = []string{"<embedded parser returned no node>"}
			}
		}
		if strings.Join(got, "\x00") != strings.Join(want, "\x00") || len(got) != len(want) {
			c.add(fp, "value", "the embedded parser's node holds %q, want %q", got, want)
		}
	case FPars, FParsV, FParss, FCust, FCusts, FParsR:
		var want []string
		for _, e := range evs {
			want = append(want, e.Vals...)
		}
		var got []string
		piText := func(v reflect.Value) string {
			if v.IsNil() {
				return "<nil interface>"
			}
			if pv, ok := v.Interface().(PIVal); ok {
				return pv.V
			}
			return fmt.Sprintf("<%s>", v.Elem().Type())
		}
		switch f.Kind {
		case FCust:
			if !fv.IsNil() {
				got = []string{piText(fv)}
			}
		case FCusts:
			for i := 0; i < fv.Len(); i++ {
				got = append(got, piText(fv.Index(i)))
			}
		case FPars, FParsR:
			if !fv.IsNil() {
				got = []string{fv.Elem().Field(0).String()}
			}
		case FParsV:
			if len(want) > 0 || fv.Field(0).String() != "" {
				got = []string{fv.Field(0).String()}
			}
		default:
			for i := 0; i < fv.Len(); i++ {
				got = append(got, fv.Index(i).Field(0).String())
			}
		}
		if f.Kind != FParss && f.Kind != FCusts && len(want) > 1 {
			want = want[len(want)-1:]
		}
		// a user-implemented production works on a fresh value at every attempt
		fresh := func(pv reflect.Value) {
			if cf := pv.FieldByName("Calls"); cf.IsValid() && cf.Int() != 1 {
				c.add(fp, "value", "user-implemented production: Parse ran %d times on the value that ended up in the AST (it holds %q)", cf.Int(), pv.Field(0).String())
			}
			if sf := pv.FieldByName("Seen"); sf.IsValid() && sf.String() != pv.Field(0).String() {
				c.add(fp, "value", "user-implemented production: the value in the AST has seen %q, its own token is %q (left over from an earlier attempt)", sf.String(), pv.Field(0).String())
			}
		}
		switch f.Kind {
		case FPars, FParsR:
			if !fv.IsNil() {
				fresh(fv.Elem())
			}
		case FParsV:
			if len(want) > 0 {
				fresh(fv)
			}
		case FParss:
			for i := 0; i < fv.Len(); i++ {
				fresh(fv.Index(i))
			}
		}
		if strings.Join(got, "\x00") != strings.Join(want, "\x00") || len(got) != len(want) {
			c.add(fp, "value", "user-implemented production(s) hold %q, want %q", got, want)
		}
	case FInt, FInt8, FInts:
		var want []int64
		for _, e := range evs {
			vs, _ := NumericValues(f.Kind, e.Vals)
			if f.Kind == FInts {
				want = append(want, vs...)
			} else if len(vs) > 0 {
				want = vs
			}
		}
		var got []int64
		if f.Kind == FInts {
			for i := 0; i < fv.Len(); i++ {
				got = append(got, fv.Index(i).Int())
			}
		} else {
			if len(want) == 0 {
				want = []int64{0}
			}
			got = []int64{fv.Int()}
		}
		if fmt.Sprint(got) != fmt.Sprint(want) {
			c.add(fp, "value", "%v, want %v", got, want)
		}
	case FTok:
		got := fv.Interface().(lexer.Token)
		var want lexer.Token
		var ev *Event
		for i := range evs { // the last capture that matched a token wins
			if evs[i].First >= 0 {
				ev = &evs[i]
			}
		}
		if ev != nil {
			want = raw[ev.First]
		}
		if !tokEq(got, want) {
			if ev != nil && ev.Start < ev.First && tokEq(got, raw[ev.Start]) && c.allElided(ev.Start, ev.First) {
				c.add(fp, "tok-leading-elided", "Token = %s, want the first matched token %s (got the elided token that precedes it)", fmtToks([]lexer.Token{got}), fmtToks([]lexer.Token{want}))
			} else {
				c.add(fp, "tok", "Token = %s, want %s", fmtToks([]lexer.Token{got}), fmtToks([]lexer.Token{want}))
			}
		}
	case FToks:
		got := fv.Interface().([]lexer.Token)
		var want []lexer.Token
		var ev *Event
		if len(evs) > 0 {
			ev = &evs[len(evs)-1]
			if ev.First >= 0 {
				want = raw[ev.First : ev.Last+1]
			}
		}
		if !toksEq(got, want) {
			if ev != nil && ev.First >= 0 && ev.Start < ev.First && c.allElided(ev.Start, ev.First) && toksEq(got, raw[ev.Start:ev.Last+1]) {
				c.add(fp, "toks-leading-elided", "[]Token = %s, want the run from the first to the last matched token %s (got leading elided tokens too)", fmtToks(got), fmtToks(want))
			} else {
				c.add(fp, "toks", "[]Token = %s, want %s", fmtToks(got), fmtToks(want))
			}
		}
	case FSub, FSubV, FUni:
		if len(evs) == 0 {
			if f.Kind != FSubV && !fv.IsNil() {
				c.add(fp, "value", "non-nil although no accepted capture wrote the field")
			}
			if f.Kind == FSubV && !fv.IsZero() {
				c.add(fp, "value", "non-zero struct although no accepted capture wrote the field")
			}
			return
		}
		if f.Kind != FSubV && fv.IsNil() {
			c.add(fp, "nil", "nil, want a node of P%d", evs[len(evs)-1].Sub.Prod)
			return
		}
		c.Node(fv, evs[len(evs)-1].Sub, uniOf(f), fp)
	case FSubs, FSubVs, FUnis:
		if fv.Len() != len(evs) {
			c.add(fp, "value", "%d elements, want %d", fv.Len(), len(evs))
			return
		}
		for i, e := range evs {
			c.Node(fv.Index(i), e.Sub, uniOf(f), fmt.Sprintf("%s[%d]", fp, i))
		}
	}
}

// ---------------------------------------------------------------------------------------------
// one-directional check for C02: nothing in the AST that the accepted derivation did not capture

// Leaks reports values present in v that do not stem from an accepted capture of n.
func (c *Comparer) Leaks(v reflect.Value, n *Node, uni int, path string) {
	before := len(c.Mis)
	v, ok := c.unwrapQuiet(v, n)
	if !ok {
		c.Mis = c.Mis[:before]
		c.add(path, "leak", "node of a production other than the accepted P%d", n.Prod)
		return
	}
	p := c.B.G.Prods[n.Prod]
	for fi, f := range p.Fields {
		fv := v.FieldByName(fmt.Sprintf("F%d", fi))
		fp := fmt.Sprintf("%s.F%d", path, fi)
		evs := c.eventsFor(n, fi)
		if len(evs) == 0 {
			if !fv.IsZero() {
				// (a slice that is empty but not nil has been written too: the zero value of a slice is nil)
				c.add(fp, "leak", "field holds %s although no capture on the accepted path wrote it", brief(fv))
			}
			continue
		}
		switch f.Kind {
		case FStr, FPStr, FNStr:
			if f.Kind == FPStr {
				if fv.IsNil() {
					continue
				}
				fv = fv.Elem()
			}
			var vals []string
			for _, e := range evs {
				vals = append(vals, e.Vals...)
			}
			if !subseqConcat(fv.String(), vals) {
				c.add(fp, "leak", "%q is not made of the accepted captures %q", fv.String(), vals)
			}
		case FStrs:
			var vals []string
			for _, e := range evs {
				vals = append(vals, e.Vals...)
			}
			if !subseq(fv.Interface().([]string), vals) {
				c.add(fp, "leak", "%q contains elements that are not accepted captures %q", fv.Interface(), vals)
			}
		case FBool, FNBool, FPBool:
			if f.Kind == FPBool {
				if fv.IsNil() {
					continue
				}
				fv = fv.Elem()
			}
			b := false
			for _, e := range evs {
				if len(e.Vals) > 0 {
					b = true
				}
			}
			if fv.Bool() && !b {
				c.add(fp, "leak", "true although no accepted capture carried a value")
			}
		case FCapt, FCaptP, FText:
			if f.Kind == FCaptP {
				if fv.IsNil() {
					continue
				}
				fv = fv.Elem()
			}
			var calls []string
			for _, e := range evs {
				if len(e.Vals) == 0 {
					continue
				}
				if f.Kind == FText {
					for _, v := range e.Vals {
						calls = append(calls, "<"+v+">")
					}
				} else {
					calls = append(calls, CapCall(e.Vals))
				}
			}
			if got := fv.Field(0).String(); !subseqConcat(got, calls) {
				c.add(fp, "leak", "user-implemented capture saw %q, which is not made of the accepted captures %q", got, calls)
			}
		case FCapts:
			var calls []string
			for _, e := range evs {
				for _, v := range e.Vals {
					calls = append(calls, CapCall([]string{v}))
				}
			}
			var got []string
			for i := 0; i < fv.Len(); i++ {
				got = append(got, fv.Index(i).Field(0).String())
			}
			if !subseq(got, calls) {
				c.add(fp, "leak", "user-implemented captures saw %q, not all of them accepted captures %q", got, calls)
			}
		case FCust, FCusts:
			var vals []string
			for _, e := range evs {
				vals = append(vals, e.Vals...)
			}
			var got []string
			add := func(v reflect.Value) {
				if v.IsNil() {
					return
				}
				if pv, ok := v.Interface().(PIVal); ok {
					got = append(got, pv.V)
				} else {
					got = append(got, "<"+v.Elem().Type().String()+">")
				}
			}
			if f.Kind == FCust {
				add(fv)
			} else {
				for i := 0; i < fv.Len(); i++ {
					add(fv.Index(i))
				}
			}
			if !subseq(got, vals) && !(f.Kind == FCust && len(got) == 1 && contains(vals, got[0])) {
				c.add(fp, "leak", "%q holds custom productions that are not on the accepted path %q", got, vals)
			}
		case FParsN:
			if fv.IsNil() || fv.Elem().Field(0).IsNil() {
				continue
			}
			in := fv.Elem().Field(0).Elem()
			got := []string{in.Field(0).String(), in.Field(1).String()}
			ok := false
			for _, e := range evs {
				if strings.Join(e.Vals, "\x00") == strings.Join(got, "\x00") {
					ok = true
				}
			}
			if !ok {
				c.add(fp, "leak", "the embedded parser's node %q is not on the accepted path", got)
			}
		case FPars, FParsV, FParss, FParsR:
			var vals []string
			for _, e := range evs {
				vals = append(vals, e.Vals...)
			}
			var got []string
			// what an earlier, abandoned attempt of the production wrote into its value must not be in the AST
			stale := func(pv reflect.Value) {
				if sf := pv.FieldByName("Seen"); sf.IsValid() && sf.String() != pv.Field(0).String() && pv.Field(0).String() != "" {
					c.add(fp, "leak", "user-implemented production: the value in the AST has seen %q, its own token is %q (left over from an abandoned attempt)", sf.String(), pv.Field(0).String())
				}
			}
			switch f.Kind {
			case FPars, FParsR:
				if !fv.IsNil() {
					got = []string{fv.Elem().Field(0).String()}
					stale(fv.Elem())
				}
			case FParsV:
				got = []string{fv.Field(0).String()}
			default:
				for i := 0; i < fv.Len(); i++ {
					got = append(got, fv.Index(i).Field(0).String())
				}
			}
			if f.Kind == FParss {
				if !subseq(got, vals) {
					c.add(fp, "leak", "%q contains user-implemented productions that are not on the accepted path %q", got, vals)
				}
			} else if len(got) == 1 {
				ok := got[0] == ""
				for _, v := range vals {
					if v == got[0] {
						ok = true
					}
				}
				if !ok {
					c.add(fp, "leak", "%q does not stem from an accepted capture %q", got[0], vals)
				}
			}
		case FInt, FInt8, FInts:
			var allowed []int64
			for _, e := range evs {
				vs, _ := NumericValues(f.Kind, e.Vals)
				allowed = append(allowed, vs...)
			}
			var got []int64
			if f.Kind == FInts {
				for i := 0; i < fv.Len(); i++ {
					got = append(got, fv.Index(i).Int())
				}
			} else if fv.Int() != 0 {
				got = []int64{fv.Int()}
			}
			j := 0
			for _, g := range got {
				for j < len(allowed) && allowed[j] != g {
					j++
				}
				if j == len(allowed) {
					c.add(fp, "leak", "%v holds a number that no accepted capture produced (%v)", got, allowed)
					break
				}
				if f.Kind == FInts {
					j++
				} else {
					j = 0
				}
			}
		case FTok:
			got := fv.Interface().(lexer.Token)
			if got == (lexer.Token{}) {
				continue
			}
			ok := false
			for _, e := range evs {
				// the accepted capture spans its first to its last matched token (elided tokens skipped in
				// front of the first one were never matched)
				for i := e.First; e.First >= 0 && i <= e.Last; i++ {
					if tokEq(got, c.L.Raw[i]) {
						ok = true
					}
				}
			}
			if !ok {
				c.add(fp, "leak", "Token %s lies outside every accepted capture of the field", fmtToks([]lexer.Token{got}))
			}
		case FToks:
			got := fv.Interface().([]lexer.Token)
			for _, t := range got {
				ok := false
				for _, e := range evs {
					for i := e.First; e.First >= 0 && i <= e.Last; i++ {
						if tokEq(t, c.L.Raw[i]) {
							ok = true
						}
					}
				}
				if !ok {
					c.add(fp, "leak", "[]Token element %s lies outside every accepted capture of the field", fmtToks([]lexer.Token{t}))
					break
				}
			}
		case FSub, FSubV, FUni:
			if f.Kind != FSubV && fv.IsNil() {
				continue
			}
			// must be (a subset of) one of the accepted sub-nodes; the last one is what an exact parser stores
			best := -1
			for i := len(evs) - 1; i >= 0; i-- {
				probe := &Comparer{B: c.B, L: c.L}
				probe.Leaks(fv, evs[i].Sub, uniOf(f), fp)
				if len(probe.Mis) == 0 {
					best = i
					break
				}
			}
			if best < 0 {
				c.Leaks(fv, evs[len(evs)-1].Sub, uniOf(f), fp)
			}
		case FSubs, FSubVs, FUnis:
			j := 0
			for i := 0; i < fv.Len(); i++ {
				matched := false
				for ; j < len(evs); j++ {
					probe := &Comparer{B: c.B, L: c.L}
					probe.Leaks(fv.Index(i), evs[j].Sub, uniOf(f), fp)
					if len(probe.Mis) == 0 {
						matched = true
						j++
						break
					}
				}
				if !matched {
					c.add(fmt.Sprintf("%s[%d]", fp, i), "leak", "element %s does not stem from an accepted sub-production (in order)", brief(fv.Index(i)))
					break
				}
			}
		}
	}
}

func (c *Comparer) unwrapQuiet(v reflect.Value, n *Node) (reflect.Value, bool) {
	if !v.IsValid() {
		return v, false
	}
	for v.Kind() == reflect.Ptr || v.Kind() == reflect.Interface {
		if v.IsNil() {
			return v, false
		}
		v = v.Elem()
	}
	pi, ok := c.B.TypeIdx[v.Type()]
	return v, ok && pi == n.Prod
}

func subseq(got, vals []string) bool {
	j := 0
	for _, g := range got {
		for j < len(vals) && vals[j] != g {
			j++
		}
		if j == len(vals) {
			return false
		}
		j++
	}
	return true
}

// subseqConcat: s is the concatenation of a subsequence of vals.
func subseqConcat(s string, vals []string) bool {
	memo := map[[2]int]bool{}
	var rec func(pos, i int) bool
	rec = func(pos, i int) bool {
		if pos == len(s) {
			return true
		}
		if i == len(vals) {
			return false
		}
		k := [2]int{pos, i}
		if v, ok := memo[k]; ok {
			return v
		}
		r := rec(pos, i+1)
		if !r && vals[i] != "" && strings.HasPrefix(s[pos:], vals[i]) {
			r = rec(pos+len(vals[i]), i+1)
		}
		memo[k] = r
		return r
	}
	return rec(0, 0)
}

func contains(vs []string, s string) bool {
	for _, v := range vs {
		if v == s {
			return true
		}
	}
	return false
}

func brief(v reflect.Value) string {
	s := Plain(v)
	if len(s) > 120 {
		s = s[:120] + "…"
	}
	return s
}

// Plain renders the captured content of an AST without positions (used for metamorphic
// comparisons and messages). Token fields are rendered by type and text.
func Plain(v reflect.Value) string { return plain(v, false) }

// PlainMasked is Plain with lexer.Token / []lexer.Token fields blanked.
func PlainMasked(v reflect.Value) string { return plain(v, true) }

// HoldsElidedToken reports whether some lexer.Token / []lexer.Token field below v holds a token of an elided type.
func HoldsElidedToken(g *Grammar, v reflect.Value) bool {
	if !v.IsValid() {
		return false
	}
	for v.Kind() == reflect.Ptr || v.Kind() == reflect.Interface {
		if v.IsNil() {
			return false
		}
		v = v.Elem()
	}
	switch v.Kind() {
	case reflect.Struct:
		if v.Type() == tTok {
			t := v.Interface().(lexer.Token)
			return g.IsElided(g.Prof().TypeName(t))
		}
		for i := 0; i < v.NumField(); i++ {
			n := v.Type().Field(i).Name
			if n == "Pos" || n == "EndPos" || n == "Tokens" || n == "PosMixin" {
				continue
			}
			if HoldsElidedToken(g, v.Field(i)) {
				return true
			}
		}
	case reflect.Slice:
		for i := 0; i < v.Len(); i++ {
			if HoldsElidedToken(g, v.Index(i)) {
				return true
			}
		}
	}
	return false
}

// PlainNoElided is Plain with elided-type tokens dropped from []lexer.Token fields: a captured token
// list is one of the places where elided tokens are "asked for" and may differ between two
// renderings of the same non-elided tokens.
func PlainNoElided(g *Grammar, v reflect.Value) string {
	plainElide = g
	defer func() { plainElide = nil }()
	return plain(v, false)
}

var plainElide *Grammar

func plain(v reflect.Value, mask bool) string {
	if !v.IsValid() {
		return "nil"
	}
	for v.Kind() == reflect.Ptr || v.Kind() == reflect.Interface {
		if v.IsNil() {
			return "nil"
		}
		if v.Kind() == reflect.Ptr {
			return "&" + plain(v.Elem(), mask)
		}
		v = v.Elem()
	}
	switch v.Kind() {
	case reflect.Struct:
		if v.Type() == tTok {
			t := v.Interface().(lexer.Token)
			if mask {
				return "tok"
			}
			return fmt.Sprintf("tok(%d %q)", t.Type, t.Value)
		}
		if v.Type() == tPos || v.Type() == tMyPos || v.Type() == tMixin {
			return ""
		}
		var sb strings.Builder
		sb.WriteString("{")
		for i := 0; i < v.NumField(); i++ {
			n := v.Type().Field(i).Name
			if n == "Pos" || n == "EndPos" || n == "Tokens" || n == "PosMixin" || strings.HasPrefix(n, "Marker") {
				continue
			}
			sb.WriteString(n + ":" + plain(v.Field(i), mask) + ";")
		}
		sb.WriteString("}")
		return sb.String()
	case reflect.Slice:
		if v.Len() == 0 {
			return "[]"
		}
		if mask && v.Type() == tToks {
			return "toks"
		}
		var sb strings.Builder
		sb.WriteString("[")
		for i := 0; i < v.Len(); i++ {
			if plainElide != nil && v.Type() == tToks {
				if t := v.Index(i).Interface().(lexer.Token); plainElide.IsElided(plainElide.Prof().TypeName(t)) {
					continue
				}
			}
			sb.WriteString(plain(v.Index(i), mask) + ",")
		}
		sb.WriteString("]")
		return sb.String()
	case reflect.String:
		return fmt.Sprintf("%q", v.String())
	default:
		return fmt.Sprintf("%v", v.Interface())
	}
}
