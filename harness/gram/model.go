package gram

import "strings"

// Tok is one token of the raw stream as the reference parser sees it.
type Tok struct {
	Type   string `json:"type"`
	Value  string `json:"value"`
	Elided bool   `json:"elided,omitempty"`
	EOF    bool   `json:"eof,omitempty"`
}

type RK int

const (
	NoMatch RK = iota
	Match
	Fail
)

// Event is one accepted capture.
type Event struct {
	Field int
	Vals  []string // values handed to the field (token texts), nil for @@ events
	Start int      // raw cursor when the capture started
	End   int      // raw cursor after the capture
	First int      // raw index of the first token the capture matched (-1: matched nothing)
	Last  int      // raw index of the last token the capture matched (-1: matched nothing)
	Sub   *Node    // @@ events
	IsSub bool
}

// Node is one accepted production instance.
type Node struct {
	Prod   int
	Events []Event
	Start  int // raw cursor at entry
	End    int // raw cursor at exit
	First  int // raw index of the first token the node consumed (-1: none)
	Last   int // raw index of the last token the node consumed (-1: none)
}

// Res is the result of evaluating an expression at a raw cursor.
type Res struct {
	K     RK
	Pos   int // Match: raw cursor after; Fail: raw cursor the failing attempt had committed to
	Ev    []Event
	NVals int
	First int // raw index of first matched token or -1
	Last  int
	Texts []string // inside a capture body: texts of the matched terminals, in order
}

// Model is the clean-room reference parser: ordered choice, greedy repetition, bounded
// backtracking ("an attempt that failed may be abandoned only if it had consumed no more tokens
// than the configured lookahead"), evaluated over the raw token stream (elided tokens included).
type Model struct {
	G   *Grammar
	Raw []Tok // ends with the EOF token
	ne  []int // ne[i] = number of non-elided, non-EOF tokens in Raw[:i]

	Budget int // max evaluation steps (0 = default)
	Steps  int

	// statistics of the evaluation
	Abandoned         int // failed attempts that had consumed >= 1 token and were abandoned
	AbandonedWithCaps int // ... and had recorded at least one capture
	AbandonedWithSub  int // ... and a complete sub-production had matched inside
	AbandonedSubFail  int // ... a sub-production failed part-way inside
	Commits           int // failures that could not be abandoned (consumed more than the lookahead)
	AtK               int // abandoned attempts that had consumed exactly k tokens (boundary)
	AtK1              int // committed attempts that had consumed exactly k+1 tokens (boundary)
	TypedVsRef        int
	MaxDepth          int
	depth             int
	ParseableNodes    int // user-implemented productions matched
	ConvFails         int // productions failed by a numeric conversion
	NumCaptures       int // accepted numeric captures
	ElidedMatched     int // elided tokens matched explicitly
	ChoiceAtElided    int // choice points whose start lay on an elided token

	capDepth   int // > 0 while evaluating a capture body
	capsSeen   int // bookkeeping for the abandoned-attempt statistics
	subsDone   int
	subsFailed int
}

// TooExpensive is panicked when the step budget is exceeded (the case is discarded, never judged).
type TooExpensive struct{}

// Unsupported is the panic value for a grammar construct the reference parser does not evaluate.
type Unsupported struct{ Why string }

func NewModel(g *Grammar, raw []Tok) *Model {
	m := &Model{G: g, Raw: raw, ne: make([]int, len(raw)+1)}
	for i, t := range raw {
		m.ne[i+1] = m.ne[i]
		if !t.Elided && !t.EOF {
			m.ne[i+1]++
		}
	}
	return m
}

func (m *Model) cur(r int) int { return m.ne[r] }

// nextNE is the raw index of the first non-elided token (or EOF) at or after r.
func (m *Model) nextNE(r int) int {
	for ; ; r++ {
		if m.Raw[r].EOF || !m.Raw[r].Elided {
			return r
		}
	}
}

func (m *Model) stop(start, p int) bool {
	k := m.G.Lookahead
	return k >= 0 && m.cur(p)-m.cur(start) > k
}

func (m *Model) noteAbandon(start int, r Res, caps0, subs0, subf0 int) {
	consumed := m.cur(r.Pos) - m.cur(start)
	if consumed > 0 {
		m.Abandoned++
		if m.capsSeen > caps0 {
			m.AbandonedWithCaps++
		}
		if m.subsDone > subs0 {
			m.AbandonedWithSub++
		}
		if m.subsFailed > subf0 {
			m.AbandonedSubFail++
		}
	}
	if k := m.G.Lookahead; k >= 0 && consumed == k && k > 0 {
		m.AtK++
	}
}

func (m *Model) noteCommit(start int, r Res) {
	m.Commits++
	if m.cur(r.Pos)-m.cur(start) == m.G.Lookahead+1 {
		m.AtK1++
	}
}

// choice evaluates n alternatives in order with the commit rule.
func (m *Model) choice(pos int, n int, alt func(i int) Res) Res {
	anyErr := false
	if m.Raw[pos].Elided {
		m.ChoiceAtElided++
	}
	for i := 0; i < n; i++ {
		c0, s0, f0 := m.capsSeen, m.subsDone, m.subsFailed
		r := alt(i)
		switch r.K {
		case Match:
			return r
		case Fail:
			if m.stop(pos, r.Pos) {
				m.noteCommit(pos, r)
				return r
			}
			m.noteAbandon(pos, r, c0, s0, f0)
			anyErr = true
		}
	}
	if anyErr {
		return Res{K: Fail, Pos: pos}
	}
	return Res{K: NoMatch, Pos: pos}
}

// terminal implements "the first token from the raw cursor that is EOF, matches, or is non-elided".
func (m *Model) terminal(pos int, match func(Tok) bool) Res {
	for i := pos; ; i++ {
		t := m.Raw[i]
		if t.EOF {
			return Res{K: NoMatch, Pos: pos}
		}
		if match(t) {
			if t.Elided {
				m.ElidedMatched++
			}
			r := Res{K: Match, Pos: i + 1, NVals: 1, First: i, Last: i}
			if m.capDepth > 0 {
				r.Texts = []string{t.Value}
			}
			return r
		}
		if !t.Elided {
			return Res{K: NoMatch, Pos: pos}
		}
	}
}

func (m *Model) litMatch(e *Expr) func(Tok) bool {
	return func(t Tok) bool {
		if e.S == "" {
			return e.T == "" || e.T == t.Type // a literal without text only constrains the type, if it names one
		}
		eq := t.Value == e.S
		if m.G.IsCI(t.Type) {
			eq = strings.EqualFold(t.Value, e.S)
		}
		return eq && (e.T == "" || e.T == t.Type)
	}
}

func span(a, b Res) (int, int) {
	first, last := a.First, a.Last
	if first < 0 {
		first = b.First
	}
	if b.Last >= 0 {
		last = b.Last
	}
	return first, last
}

func (m *Model) eval(e *Expr, pos int) Res {
	m.Steps++
	budget := m.Budget
	if budget == 0 {
		budget = 20000
	}
	if m.Steps > budget {
		panic(TooExpensive{})
	}
	switch e.Kind {
	case KLit:
		if e.S == "" && e.T == "" {
			// the empty untyped literal takes the very next token whatever it is -- an elided one too; at the end of
			// the input it matches the EOF token, which is not consumed
			if m.Raw[pos].EOF {
				r := Res{K: Match, Pos: pos, NVals: 1, First: -1, Last: -1}
				if m.capDepth > 0 {
					r.Texts = []string{""}
				}
				return r
			}
		}
		r := m.terminal(pos, m.litMatch(e))
		if r.K == Match && e.T != "" {
			m.TypedVsRef++
		}
		return r
	case KRef:
		if e.T == "EOF" {
			// the EOF token matches a reference to EOF; nothing is consumed beyond the elided tokens in front of it
			i := m.nextNE(pos)
			if !m.Raw[i].EOF {
				return Res{K: NoMatch, Pos: pos}
			}
			r := Res{K: Match, Pos: i, NVals: 1, First: -1, Last: -1}
			if m.capDepth > 0 {
				r.Texts = []string{""}
			}
			return r
		}
		return m.terminal(pos, func(t Tok) bool { return t.Type == e.T })
	case KSeq:
		acc := Res{K: Match, Pos: pos, First: -1, Last: -1}
		for i, k := range e.Kids {
			r := m.eval(k, acc.Pos)
			switch r.K {
			case NoMatch:
				if i == 0 {
					return Res{K: NoMatch, Pos: pos}
				}
				return Res{K: Fail, Pos: acc.Pos}
			case Fail:
				return Res{K: Fail, Pos: r.Pos}
			}
			acc.First, acc.Last = span(acc, r)
			acc.Pos = r.Pos
			acc.Ev = append(acc.Ev, r.Ev...)
			acc.NVals += r.NVals
			if m.capDepth > 0 {
				acc.Texts = append(acc.Texts, r.Texts...)
			}
		}
		return acc
	case KAlt:
		return m.choice(pos, len(e.Kids), func(i int) Res { return m.eval(e.Kids[i], pos) })
	case KGroup:
		body := e.Kids[0]
		switch e.Mod {
		case "":
			return m.eval(body, pos)
		case "!":
			r := m.eval(body, pos)
			if r.K == Fail {
				return r
			}
			if r.K == NoMatch || r.NVals == 0 {
				return Res{K: Fail, Pos: r.Pos}
			}
			return r
		}
		max := 1 << 30
		if e.Mod == "?" {
			max = 1
		}
		acc := Res{K: Match, Pos: pos, First: -1, Last: -1}
		matches := 0
		for matches < max {
			if m.Raw[acc.Pos].Elided {
				m.ChoiceAtElided++
			}
			c0, s0, f0 := m.capsSeen, m.subsDone, m.subsFailed
			r := m.eval(body, acc.Pos)
			if r.K == Fail {
				if m.stop(acc.Pos, r.Pos) {
					m.noteCommit(acc.Pos, r)
					return r
				}
				m.noteAbandon(acc.Pos, r, c0, s0, f0)
				break
			}
			if r.K == NoMatch {
				break
			}
			if r.Pos == acc.Pos && e.Mod != "?" {
				// a repetition body that matches without consuming (the library's own "grammar bug" class; only the
				// recursive systems of C08 contain such bodies, and they use this parser as a cost guard only)
				panic(Unsupported{"zero-progress repetition body"})
			}
			acc.First, acc.Last = span(acc, r)
			acc.Pos = r.Pos
			acc.Ev = append(acc.Ev, r.Ev...)
			acc.NVals += r.NVals
			if m.capDepth > 0 {
				acc.Texts = append(acc.Texts, r.Texts...)
			}
			matches++
		}
		if e.Mod == "+" && matches == 0 {
			return Res{K: NoMatch, Pos: pos}
		}
		return acc
	case KCap:
		m.capDepth++
		r := m.eval(e.Kids[0], pos)
		m.capDepth--
		if r.K != Match {
			return r
		}
		m.capsSeen++
		// the values handed to the field: the texts of the terminals matched inside, in order
		vals := append([]string{}, r.Texts...)
		return Res{K: Match, Pos: r.Pos, NVals: 1, First: r.First, Last: r.Last,
			Ev: []Event{{Field: e.Field, Vals: vals, Start: pos, End: r.Pos, First: r.First, Last: r.Last}}}
	case KSub:
		if e.Uni >= 0 {
			members := m.G.Unions[e.Uni].Members
			var node *Node
			r := m.choice(pos, len(members), func(i int) Res {
				rr, n := m.Prod(members[i], pos)
				if rr.K == Match {
					node = n
				}
				return rr
			})
			if r.K != Match {
				return r
			}
			m.capsSeen++
			return Res{K: Match, Pos: r.Pos, NVals: 1, First: r.First, Last: r.Last,
				Ev: []Event{{Field: e.Field, Sub: node, IsSub: true, Start: pos, End: r.Pos, First: r.First, Last: r.Last}}}
		}
		r, n := m.Prod(e.Prod, pos)
		if r.K != Match {
			return r
		}
		m.capsSeen++
		return Res{K: Match, Pos: r.Pos, NVals: 1, First: r.First, Last: r.Last,
			Ev: []Event{{Field: e.Field, Sub: n, IsSub: true, Start: pos, End: r.Pos, First: r.First, Last: r.Last}}}
	case KPars:
		if e.S == "N" {
			// the embedded parser: a plain sequence; it fails where the sequence fails and the position it had
			// reached is what the enclosing parser sees
			p, first, last := pos, -1, -1
			var vals []string
			for i, leaf := range nestLeaves {
				r := m.eval(leaf, p)
				if r.K != Match {
					if i == 0 {
						return Res{K: NoMatch, Pos: pos}
					}
					return Res{K: Fail, Pos: p}
				}
				if first < 0 {
					first = r.First
				}
				last = r.Last
				if i%2 == 0 {
					vals = append(vals, m.Raw[r.First].Value)
				}
				p = r.Pos
			}
			m.capsSeen++
			m.ParseableNodes++
			return Res{K: Match, Pos: p, NVals: 1, First: first, Last: last,
				Ev: []Event{{Field: e.Field, Vals: vals, Start: pos, End: p, First: first, Last: last}}}
		}
		// user-implemented production: takes the next non-elided token, whatever it is
		ne := m.nextNE(pos)
		if m.Raw[ne].EOF || (e.S == "R" && strings.ContainsAny(m.Raw[ne].Value, "bB")) {
			return Res{K: NoMatch, Pos: pos}
		}
		m.capsSeen++
		m.ParseableNodes++
		return Res{K: Match, Pos: ne + 1, NVals: 1, First: ne, Last: ne,
			Ev: []Event{{Field: e.Field, Vals: []string{m.Raw[ne].Value}, Start: pos, End: ne + 1, First: ne, Last: ne}}}
	case KNeg:
		ne := m.nextNE(pos)
		if m.Raw[ne].EOF {
			return Res{K: NoMatch, Pos: pos}
		}
		c0, s0, f0 := m.capsSeen, m.subsDone, m.subsFailed
		r := m.eval(e.Kids[0], pos)
		if r.K == Match {
			return Res{K: Fail, Pos: pos}
		}
		if r.K == Fail {
			m.noteAbandon(pos, r, c0, s0, f0)
		}
		nr := Res{K: Match, Pos: ne + 1, NVals: 1, First: ne, Last: ne}
		if m.capDepth > 0 {
			nr.Texts = []string{m.Raw[ne].Value}
		}
		return nr
	case KLook:
		c0, s0, f0 := m.capsSeen, m.subsDone, m.subsFailed
		r := m.eval(e.Kids[0], pos)
		if r.K != NoMatch && (r.K == Fail || m.capsSeen > c0) {
			// whatever the body did is discarded
			m.noteAbandon(pos, Res{Pos: r.Pos}, c0, s0, f0)
		}
		if (r.K == Match) != !e.Neg {
			return Res{K: Fail, Pos: pos}
		}
		return Res{K: Match, Pos: pos, NVals: 0, First: -1, Last: -1}
	}
	panic("gram: bad kind")
}

// Prod evaluates production pi at raw cursor pos.
func (m *Model) Prod(pi, pos int) (Res, *Node) {
	m.depth++
	if m.depth > m.MaxDepth {
		m.MaxDepth = m.depth
	}
	r := m.eval(m.G.Prods[pi].Expr, pos)
	m.depth--
	if r.K != Match {
		if r.K == Fail {
			m.subsFailed++
		}
		return r, nil
	}
	// numeric captures are converted when the production completes; a rejected text fails the production there
	for _, ev := range r.Ev {
		if k := m.G.Prods[pi].Fields[ev.Field].Kind; k.IsNumeric() && !ev.IsSub {
			if _, err := NumericValues(k, ev.Vals); err != nil {
				m.ConvFails++
				m.subsFailed++
				return Res{K: Fail, Pos: r.Pos}, nil
			}
		}
	}
	m.subsDone++
	return Res{K: Match, Pos: r.Pos, NVals: 1, First: r.First, Last: r.Last},
		&Node{Prod: pi, Events: r.Ev, Start: pos, End: r.Pos, First: r.First, Last: r.Last}
}

// Parse evaluates the root (`Root{ V U0 "@@" }`): accept iff the root union matches and only
// elided tokens remain (or trailing input is allowed). Returns the accepted derivation and the raw
// cursor after it.
func (m *Model) Parse(allowTrailing bool) (ok bool, node *Node, end int) {
	members := m.G.Unions[0].Members
	r := m.choice(0, len(members), func(i int) Res {
		rr, n := m.Prod(members[i], 0)
		if rr.K == Match {
			node = n
		}
		return rr
	})
	if r.K != Match {
		return false, nil, 0
	}
	if !m.Raw[m.nextNE(r.Pos)].EOF && !allowTrailing {
		return false, nil, r.Pos
	}
	return true, node, r.Pos
}

// ParseProd parses the whole input as production pi (the grammar of a parser derived for an inner production).
func (m *Model) ParseProd(pi int) (ok bool, node *Node, end int) {
	r, n := m.Prod(pi, 0)
	if r.K != Match || !m.Raw[m.nextNE(r.Pos)].EOF {
		return false, nil, r.Pos
	}
	return true, n, r.Pos
}
