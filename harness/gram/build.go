package gram

import (
	"fmt"
	"reflect"
	"strings"

	"github.com/alecthomas/participle/v2"
	"github.com/alecthomas/participle/v2/lexer"
)

// Built is a grammar compiled by participle.Build.
type Built struct {
	G       *Grammar
	Types   []reflect.Type
	TypeIdx map[reflect.Type]int
	P       *participle.Parser[Root]
}

func unionOpt(u int, vals []any) participle.Option {
	switch u {
	case 0:
		vs := make([]U0, len(vals))
		for i := range vals {
			vs[i] = vals[i]
		}
		return participle.Union[U0](vs...)
	case 1:
		vs := make([]U1, len(vals))
		for i := range vals {
			vs[i] = vals[i]
		}
		return participle.Union[U1](vs...)
	case 2:
		vs := make([]U2, len(vals))
		for i := range vals {
			vs[i] = vals[i]
		}
		return participle.Union[U2](vs...)
	case 3:
		vs := make([]U3, len(vals))
		for i := range vals {
			vs[i] = vals[i]
		}
		return participle.Union[U3](vs...)
	case 4:
		vs := make([]U4, len(vals))
		for i := range vals {
			vs[i] = vals[i]
		}
		return participle.Union[U4](vs...)
	case 5:
		vs := make([]U5, len(vals))
		for i := range vals {
			vs[i] = vals[i]
		}
		return participle.Union[U5](vs...)
	}
	panic("gram: too many unions")
}

// Options returns the participle options that configure the grammar (lexer, elision, lookahead,
// case-insensitivity, unions) for the given production types.
func (g *Grammar) Options(types []reflect.Type) []participle.Option {
	// the order of options and the way a list is spread over several options of one kind are the caller's choice:
	// derive both from the grammar so that a case replays the same way
	variant := (len(g.Prods) + len(g.Unions) + len(g.Elide)) % 3
	var opts []participle.Option
	if variant != 1 {
		opts = append(opts, participle.Lexer(g.Prof().Def))
	}
	opts = append(opts, participle.UseLookahead(g.Lookahead), participle.ParseTypeWith(ParsePI))
	if len(g.CI) > 0 {
		opts = append(opts, participle.CaseInsensitive(g.CI...))
	}
	if len(g.Elide) > 1 && variant == 2 {
		opts = append(opts, participle.Elide(g.Elide[:1]...), participle.Elide(g.Elide[1:]...))
	} else if len(g.Elide) > 0 {
		opts = append(opts, participle.Elide(g.Elide...))
	}
	if len(g.ExtraElide) > 0 {
		opts = append(opts, participle.Elide(g.ExtraElide...))
	}
	if variant == 1 {
		opts = append(opts, participle.Lexer(g.Prof().Def)) // the lexer named last
	}
	for u, un := range g.Unions {
		var vals []any
		for j, m := range un.Members {
			if j < len(un.Ptr) && un.Ptr[j] {
				vals = append(vals, reflect.New(types[m]).Interface())
			} else {
				vals = append(vals, reflect.New(types[m]).Elem().Interface())
			}
		}
		opts = append(opts, unionOpt(u, vals))
	}
	return opts
}

// Build renders g to struct types and calls participle.Build.
func Build(g *Grammar, extra ...participle.Option) (*Built, error) {
	return BuildTypes(g, g.Types(), extra...)
}

// BuildTypes calls participle.Build for already rendered production types (so that several parsers
// with different options share their AST types).
func BuildTypes(g *Grammar, types []reflect.Type, extra ...participle.Option) (*Built, error) {
	b := &Built{G: g, Types: types, TypeIdx: map[reflect.Type]int{}}
	for i, t := range types {
		b.TypeIdx[t] = i
	}
	opts := append(g.Options(types), extra...)
	p, err := participle.Build[Root](opts...)
	if err != nil {
		return nil, err
	}
	b.P = p
	return b, nil
}

// Lexed is an input as the parser's lexer sees it.
type Lexed struct {
	Raw  []lexer.Token // incl. EOF
	Toks []Tok         // same length, model view
}

// NonElided returns the (type, text) sequence of the non-elided tokens.
func (l *Lexed) NonElided() []VTok {
	var out []VTok
	for _, t := range l.Toks {
		if !t.Elided && !t.EOF {
			out = append(out, VTok{t.Type, t.Value})
		}
	}
	return out
}

// Lex tokenises input with the parser's own lexer (Parser.Lex).
func (b *Built) Lex(input string) (*Lexed, error) {
	raw, err := b.P.Lex("f", strings.NewReader(input))
	if err != nil {
		return nil, err
	}
	return ToLexed(b.G, raw), nil
}

// ToLexed converts a raw token list into the model's view.
func ToLexed(g *Grammar, raw []lexer.Token) *Lexed {
	l := &Lexed{Raw: raw}
	for _, t := range raw {
		name := g.Prof().TypeName(t)
		l.Toks = append(l.Toks, Tok{Type: name, Value: t.Value, Elided: !t.EOF() && g.IsElided(name), EOF: t.EOF()})
	}
	return l
}

func (b *Built) Describe() string { return b.G.String() }

var lexSyms = profiles[""].syms

func fmtToks(ts []lexer.Token) string {
	var sb strings.Builder
	sb.WriteString("[")
	for i, t := range ts {
		if i > 0 {
			sb.WriteString(" ")
		}
		fmt.Fprintf(&sb, "%d%q@%d", t.Type, t.Value, t.Pos.Offset)
	}
	sb.WriteString("]")
	return sb.String()
}

// PRoot is a grammar whose root production is implemented by user code (participle.Parseable): it accepts every
// token stream and records the token texts.
type PRoot struct {
	Vals []string
}

// Parse implements participle.Parseable.
func (p *PRoot) Parse(lex *lexer.PeekingLexer) error {
	p.Vals = []string{}
	for !lex.Peek().EOF() {
		p.Vals = append(p.Vals, lex.Next().Value)
	}
	return nil
}

// BuildPRoot builds a parser whose root is PRoot over g's lexer profile and elision set.
func BuildPRoot(g *Grammar) (*participle.Parser[PRoot], error) {
	return participle.Build[PRoot](g.Options(nil)...)
}

// BuildUnionRoot calls participle.Build with the root union itself as the grammar type (Build[U0](Union[U0](...)))
// and returns its error.
func BuildUnionRoot(g *Grammar) error {
	_, err := participle.Build[U0](g.Options(g.Types())...)
	return err
}
