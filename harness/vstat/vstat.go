// Package vstat collects what a check run actually covered (counters, distinct non-trivial
// cases, samples, excluded known findings), records failing cases as replay files and writes the
// per-process partial evidence that bin/check merges into /verif/evidence/<ID>.json.
package vstat

import (
	"crypto/sha256"
	"encoding/binary"
	"encoding/hex"
	"encoding/json"
	"fmt"
	"os"
	"path/filepath"
	"sort"
	"strconv"
	"strings"
	"sync"
	"time"
)

// Failure is a violating case in replayable form.
type Failure struct {
	Property string          `json:"property"`
	Message  string          `json:"message"`
	Sig      string          `json:"sig,omitempty"`
	Case     json.RawMessage `json:"case"`
}

// Run accumulates the statistics of one process.
type Run struct {
	Prop  string
	Tier  string
	Seed  int64
	Shard string

	mu        sync.Mutex
	start     time.Time
	evals     int64
	flushedAt int64
	counters  map[string]int64
	nt        map[uint64]struct{}
	samples   []json.RawMessage
	ntSamples int
	excluded  map[string]int64
	known     map[string]string // sig -> description (only `known:` entries of this property)
	rule      string
	assume    []string
	lastFail  *Failure
	violation []string // replay paths
	frozen    bool
	inconcl   []string
}

var (
	curMu sync.Mutex
	cur   = map[string]*Run{}
)

func envInt(name string, def int64) int64 {
	v := os.Getenv(name)
	if v == "" {
		return def
	}
	n, err := strconv.ParseInt(v, 10, 64)
	if err != nil {
		return def
	}
	return n
}

// EnvInt exposes integer tuning knobs passed by the driver.
func EnvInt(name string, def int) int { return int(envInt(name, int64(def))) }

// Root returns /verif (the directory holding KNOWN_FINDINGS.txt, replays/, evidence/).
func Root() string {
	if r := os.Getenv("VERIF_ROOT"); r != "" {
		return r
	}
	return "/verif"
}

// For returns the (singleton per property) run object.
func For(prop string) *Run {
	curMu.Lock()
	defer curMu.Unlock()
	if r, ok := cur[prop]; ok {
		return r
	}
	r := &Run{
		Prop: prop, Tier: os.Getenv("VERIF_TIER"), Seed: envInt("VERIF_SEED", 1), Shard: os.Getenv("VERIF_SHARD"),
		start: time.Now(), counters: map[string]int64{}, nt: map[uint64]struct{}{}, excluded: map[string]int64{},
		known: map[string]string{},
	}
	if r.Tier == "" {
		r.Tier = "quick"
	}
	r.loadKnown()
	cur[prop] = r
	return r
}

// loadKnown reads KNOWN_FINDINGS.txt (read-only at run time).
// Line format:  known: property=C01 sig=<key> <what fails>
//
//	fixed: property=C01 <commit> <what failed>      (suppresses nothing)
func (r *Run) loadKnown() {
	data, err := os.ReadFile(filepath.Join(Root(), "KNOWN_FINDINGS.txt"))
	if err != nil {
		return
	}
	for _, line := range strings.Split(string(data), "\n") {
		line = strings.TrimSpace(line)
		if !strings.HasPrefix(line, "known:") {
			continue
		}
		f := strings.Fields(strings.TrimPrefix(line, "known:"))
		if len(f) < 2 || f[0] != "property="+r.Prop || !strings.HasPrefix(f[1], "sig=") {
			continue
		}
		r.known[strings.TrimPrefix(f[1], "sig=")] = strings.Join(f[2:], " ")
	}
}

// Known reports whether sig is a listed known finding of this property.
func (r *Run) Known(sig string) bool {
	if sig == "" {
		return false
	}
	_, ok := r.known[sig]
	return ok
}

// KnownSigs lists the known-finding signatures of this property.
func (r *Run) KnownSigs() map[string]string { return r.known }

func (r *Run) SetRule(rule string) { r.mu.Lock(); r.rule = rule; r.mu.Unlock() }
func (r *Run) Assume(a ...string)  { r.mu.Lock(); r.assume = append(r.assume, a...); r.mu.Unlock() }
func (r *Run) Freeze()             { r.mu.Lock(); r.frozen = true; r.mu.Unlock() }
func (r *Run) Inconclusive(why string) {
	r.mu.Lock()
	r.inconcl = append(r.inconcl, why)
	r.mu.Unlock()
}
func (r *Run) Evaluations() int64         { r.mu.Lock(); defer r.mu.Unlock(); return r.evals }
func (r *Run) Counter(label string) int64 { r.mu.Lock(); defer r.mu.Unlock(); return r.counters[label] }
func (r *Run) DistinctNonTrivial() int    { r.mu.Lock(); defer r.mu.Unlock(); return len(r.nt) }
func (r *Run) Violations() []string {
	r.mu.Lock()
	defer r.mu.Unlock()
	return append([]string(nil), r.violation...)
}
func (r *Run) ExcludedCount(s string) int64 { r.mu.Lock(); defer r.mu.Unlock(); return r.excluded[s] }

// Eval counts one executed case.
func (r *Run) Eval() {
	r.mu.Lock()
	if !r.frozen {
		r.evals++
	}
	r.mu.Unlock()
}

// Count increments a class counter (the generator's measured distribution).
func (r *Run) Count(label string) { r.Add(label, 1) }

func (r *Run) Add(label string, n int64) {
	r.mu.Lock()
	if !r.frozen {
		r.counters[label] += n
	}
	r.mu.Unlock()
}

// Excluded counts a failing case that matched a listed known finding.
func (r *Run) Excluded(sig string) {
	r.mu.Lock()
	if !r.frozen {
		r.excluded[sig]++
	}
	r.mu.Unlock()
}

func hash64(s string) uint64 {
	h := sha256.Sum256([]byte(s))
	return binary.LittleEndian.Uint64(h[:8])
}

// NonTrivial records a case that is non-trivial by the property's rule; canon is its canonical
// text (distinctness = distinct SHA-256 of that text). sample (may be nil) is kept for the first
// few cases and then sparsely.
func (r *Run) NonTrivial(canon string, sample func() any) {
	h := hash64(canon)
	r.mu.Lock()
	defer r.mu.Unlock()
	if r.frozen {
		return
	}
	if _, ok := r.nt[h]; ok {
		return
	}
	r.nt[h] = struct{}{}
	n := len(r.nt)
	if sample != nil && (n <= 4 || (n&(n-1)) == 0) && len(r.samples) < 12 {
		if b, err := json.Marshal(sample()); err == nil {
			r.samples = append(r.samples, b)
		}
	}
}

// Sample adds a sample unconditionally (bounded).
func (r *Run) Sample(v any) {
	r.mu.Lock()
	defer r.mu.Unlock()
	if r.frozen || len(r.samples) >= 12 {
		return
	}
	if b, err := json.Marshal(v); err == nil {
		r.samples = append(r.samples, b)
	}
}

// NoteFailure remembers the most recent failing case (the last one rapid runs is the shrunk one).
func (r *Run) NoteFailure(msg, sig string, c any) {
	b, err := json.Marshal(c)
	if err != nil {
		b, _ = json.Marshal(fmt.Sprintf("unserialisable case: %v", err))
	}
	r.mu.Lock()
	r.lastFail = &Failure{Property: r.Prop, Message: msg, Sig: sig, Case: b}
	r.mu.Unlock()
}

// LastFailure returns the remembered failing case.
func (r *Run) LastFailure() *Failure { r.mu.Lock(); defer r.mu.Unlock(); return r.lastFail }

// SaveViolation writes the remembered failure as a replay file and prints the VIOLATION line.
func (r *Run) SaveViolation() string {
	r.mu.Lock()
	f := r.lastFail
	r.mu.Unlock()
	if f == nil {
		f = &Failure{Property: r.Prop, Message: "failure without a recorded case", Case: json.RawMessage("null")}
	}
	return r.SaveFailure(f)
}

// SaveFailure writes f under replays/<ID>/ and prints the VIOLATION line.
func (r *Run) SaveFailure(f *Failure) string {
	data, _ := json.MarshalIndent(f, "", " ")
	sum := sha256.Sum256(f.Case)
	dir := filepath.Join(Root(), "replays", r.Prop)
	_ = os.MkdirAll(dir, 0o755)
	prefix := "v-"
	if os.Getenv("VERIF_REPO") != "" {
		prefix = "p-" // a development probe against a scratch copy of the repository: kept apart from real findings
	}
	path := filepath.Join(dir, prefix+hex.EncodeToString(sum[:6])+".json")
	_ = os.WriteFile(path, append(data, '\n'), 0o644)
	r.mu.Lock()
	r.violation = append(r.violation, path)
	r.mu.Unlock()
	fmt.Printf("VIOLATION property=%s replay=%s\n", r.Prop, path)
	fmt.Printf("  detail: %s\n", strings.ReplaceAll(firstN(f.Message, 1500), "\n", "\n  "))
	return path
}

func firstN(s string, n int) string {
	if len(s) > n {
		return s[:n] + "…"
	}
	return s
}

// Partial is the per-process evidence fragment merged by bin/check.
type Partial struct {
	Property    string            `json:"property_id"`
	Tier        string            `json:"tier"`
	Seed        int64             `json:"seed"`
	Shard       string            `json:"shard"`
	Evaluations int64             `json:"evaluations"`
	NTHashes    []string          `json:"nt_hashes"`
	Counters    map[string]int64  `json:"counters"`
	Excluded    map[string]int64  `json:"excluded_known"`
	Samples     []json.RawMessage `json:"samples"`
	Rule        string            `json:"rule"`
	Assumptions []string          `json:"assumptions"`
	WallS       float64           `json:"wall_s"`
	Violations  []string          `json:"violations"`
	Inconcl     []string          `json:"inconclusive"`
}

// Flush writes the partial evidence to $VERIF_OUT (if set) and returns it.
func (r *Run) Flush() *Partial {
	r.mu.Lock()
	p := &Partial{
		Property: r.Prop, Tier: r.Tier, Seed: r.Seed, Shard: r.Shard, Evaluations: r.evals,
		Counters: r.counters, Excluded: r.excluded, Samples: r.samples, Rule: r.rule, Assumptions: r.assume,
		WallS: time.Since(r.start).Seconds(), Violations: r.violation, Inconcl: r.inconcl,
	}
	if r.lastFail != nil && len(p.Samples) < 12 {
		p.Samples = append(append([]json.RawMessage(nil), p.Samples...), r.lastFail.Case)
	}
	hs := make([]uint64, 0, len(r.nt))
	for h := range r.nt {
		hs = append(hs, h)
	}
	sort.Slice(hs, func(i, j int) bool { return hs[i] < hs[j] })
	for _, h := range hs {
		p.NTHashes = append(p.NTHashes, strconv.FormatUint(h, 16))
	}
	r.mu.Unlock()
	if out := os.Getenv("VERIF_OUT"); out != "" {
		data, _ := json.Marshal(p)
		_ = os.MkdirAll(filepath.Dir(out), 0o755)
		_ = os.WriteFile(out, data, 0o644)
	}
	return p
}

// Journal records the case that is about to run in $VERIF_WORK/journal-<shard>.json so that a fatal
// crash of the process (Go stack overflow is not recoverable) can still be attributed by the driver.
func (r *Run) Journal(c any, why string) {
	dir := os.Getenv("VERIF_WORK")
	if dir == "" {
		return
	}
	// a crash loses everything not yet written: keep the partial result reasonably fresh
	r.mu.Lock()
	stale := r.evals-r.flushedAt >= 1000
	if stale {
		r.flushedAt = r.evals
	}
	r.mu.Unlock()
	if stale {
		r.Flush()
	}
	b, err := json.Marshal(c)
	if err != nil {
		return
	}
	f := &Failure{Property: r.Prop, Message: "the process died with a fatal error while running this case (" + why + ")", Sig: "fatal-crash", Case: b}
	data, _ := json.MarshalIndent(f, "", " ")
	_ = os.WriteFile(filepath.Join(dir, "journal-"+r.Shard+".json"), data, 0o644)
}

// JournalDone clears the journal after the risky call returned.
func (r *Run) JournalDone() {
	dir := os.Getenv("VERIF_WORK")
	if dir == "" {
		return
	}
	_ = os.Remove(filepath.Join(dir, "journal-"+r.Shard+".json"))
}
