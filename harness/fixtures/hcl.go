package fixtures

import (
	"fmt"
	"strings"

	"github.com/alecthomas/participle/v2"
)

// Ported from /repo/_examples/hcl/main.go (a parser for HashiCorp's HCL configuration syntax).

type hclBool bool

func (b *hclBool) Capture(v []string) error { *b = v[0] == "true"; return nil }

type hclValue struct {
	Boolean    *hclBool    `  @("true"|"false")`
	Identifier *string     `| @Ident ( @"." @Ident )*`
	String     *string     `| @(String|Char|RawString)`
	Number     *float64    `| @(Float|Int)`
	Array      []*hclValue `| "[" ( @@ ","? )* "]"`
}

type hclEntry struct {
	Key   string    `@Ident`
	Value *hclValue `( "=" @@`
	Block *hclBlock `  | @@ )`
}

type hclBlock struct {
	Parameters []*hclValue `@@*`
	Entries    []*hclEntry `"{" @@* "}"`
}

type hclConfig struct {
	Entries []*hclEntry `@@*`
}

var hclParser = mustBuild[hclConfig](participle.Unquote())

func init() {
	f := Register("hcl", hclParser, nil,
		`
region = "us-west-2"
access_key = "something"
secret_key = "something_else"
bucket = "backups"

directory config {
    source_dir = "/etc/eventstore"
    dest_prefix = "escluster/config"
    exclude = ["*.hcl"]
    pre_backup_script = "before_backup.sh"
    post_backup_script = "after_backup.sh"
    pre_restore_script = "before_restore.sh"
    post_restore_script = "after_restore.sh"
    chmod = 0755
}

directory data {
    source_dir = "/var/lib/eventstore"
    dest_prefix = "escluster/a/data"
    exclude = [
        "*.merging"
    ]
    pre_restore_script = "before_restore.sh"
    post_restore_script = "after_restore.sh"
}
`,
		`a = 1`,
		`enabled = true
ref = some.dotted.name
list = [1, 2.5, "three", [4, 5]]`,
		`server "web" 80 {
  host = "localhost"
  tls {
    enabled = false
  }
}`,
		``,
	)
	f.Nesting = func(n int) string {
		var sb strings.Builder
		for i := 0; i < n; i++ {
			fmt.Fprintf(&sb, "block%d {\n", i)
		}
		sb.WriteString("leaf = 1\n")
		sb.WriteString(strings.Repeat("}\n", n))
		return sb.String()
	}
	f.Flat = func(n int) string {
		var sb strings.Builder
		for i := 0; i < n; i++ {
			fmt.Fprintf(&sb, "key%d = %d\n", i, i)
		}
		return sb.String()
	}
}
