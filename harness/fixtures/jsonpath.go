package fixtures

import (
	"fmt"
	"strings"
)

// Ported from /repo/_examples/jsonpath/main.go.

type jsonpathPathExpr struct {
	Parts []jsonpathPart `@@ ( "." @@ )*`
}

type jsonpathPart struct {
	Obj string        `@Ident`
	Acc []jsonpathAcc `("[" @@ "]")*`
}

type jsonpathAcc struct {
	Name  *string `@(String|Char|RawString)`
	Index *int    `| @Int`
}

var jsonpathParser = mustBuild[jsonpathPathExpr]()

func init() {
	f := Register("jsonpath", jsonpathParser, nil,
		`check_run.check_suite.pull_requests[0].url`,
		`a`,
		`repository["owner"].login`,
		"a[0][1]['x'][`raw`].b",
	)
	// The grammar has no recursive nesting.
	f.Flat = func(n int) string {
		if n < 1 {
			n = 1
		}
		parts := make([]string, n)
		for i := range parts {
			parts[i] = fmt.Sprintf("p%d[%d]", i, i)
		}
		return strings.Join(parts, ".")
	}
}
