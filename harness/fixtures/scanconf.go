package fixtures

import (
	"fmt"
	"strings"
	"text/scanner"

	"github.com/alecthomas/participle/v2"
	"github.com/alecthomas/participle/v2/lexer"
)

// Not ported: a harness-owned grammar over a *configured* text/scanner lexer (lexer.NewTextScannerLexer with a
// callback: comments become tokens and are elided by the parser), with quoted values unquoted by participle.Unquote.

type scanconfDoc struct {
	Items []*scanconfItem `@@*`
}

type scanconfItem struct {
	Key   string   `@Ident "="`
	Str   *string  `(  @String | @RawString | @Char`
	Num   *float64 ` | @Float | @Int )`
	Extra []string `( "," @( Ident | String ) )* ";"?`
}

var scanconfParser = mustBuild[scanconfDoc](
	participle.Lexer(lexer.NewTextScannerLexer(func(s *scanner.Scanner) { s.Mode &^= scanner.SkipComments })),
	participle.Elide("Comment"),
	participle.Unquote("String", "RawString", "Char"),
)

func init() {
	f := Register("scanconf", scanconfParser, []string{"Comment"},
		`a = "x" ; b = 12`,
		"/* head */ k = `raw` , more , \"q\\\"q\" // tail\nn = 1.5",
		`c = 'c'; d = "é\t"`,
		``,
	)
	f.Flat = func(n int) string {
		var sb strings.Builder
		for i := 0; i < n; i++ {
			fmt.Fprintf(&sb, "k%d = \"v%d\" /* %d */ ;\n", i, i, i)
		}
		return sb.String()
	}
}
