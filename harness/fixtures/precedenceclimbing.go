package fixtures

import (
	"strconv"
	"strings"

	"github.com/alecthomas/participle/v2/lexer"
)

// Ported from /repo/_examples/precedenceclimbing/main.go: an example of how to add precedence
// climbing to a Participle parser (the root type implements participle.Parseable).
//
// It is based on https://eli.thegreenplace.net/2012/08/02/parsing-expressions-by-precedence-climbing

type precclimbOpInfo struct {
	RightAssociative bool
	Priority         int
}

var precclimbInfo = map[string]precclimbOpInfo{
	"+": {Priority: 1},
	"-": {Priority: 1},
	"*": {Priority: 2},
	"/": {Priority: 2},
	"^": {RightAssociative: true, Priority: 3},
}

type precclimbExpr struct {
	Terminal *int

	Left  *precclimbExpr
	Op    string
	Right *precclimbExpr
}

func (e *precclimbExpr) Parse(lex *lexer.PeekingLexer) error {
	*e = *precclimbParseExpr(lex, 0)
	return nil
}

// (1 + 2) * 3
func precclimbParseExpr(lex *lexer.PeekingLexer, minPrec int) *precclimbExpr {
	lhs := precclimbParseAtom(lex)
	for {
		tok := precclimbPeek(lex)
		if tok.EOF() || !precclimbIsOp(rune(tok.Type)) || precclimbInfo[tok.Value].Priority < minPrec {
			break
		}
		op := tok.Value
		nextMinPrec := precclimbInfo[op].Priority
		if !precclimbInfo[op].RightAssociative {
			nextMinPrec++
		}
		lex.Next()
		rhs := precclimbParseExpr(lex, nextMinPrec)
		lhs = precclimbParseOp(op, lhs, rhs)
	}
	return lhs
}
func precclimbParseAtom(lex *lexer.PeekingLexer) *precclimbExpr {
	tok := precclimbPeek(lex)
	if tok.Type == '(' {
		lex.Next()
		val := precclimbParseExpr(lex, 1)
		if precclimbPeek(lex).Value != ")" {
			panic("unmatched (")
		}
		lex.Next()
		return val
	} else if tok.EOF() {
		panic("unexpected EOF")
	} else if precclimbIsOp(rune(tok.Type)) {
		panic("expected a terminal not " + tok.String())
	} else {
		lex.Next()
		n, err := strconv.ParseInt(tok.Value, 10, 64)
		if err != nil {
			panic("invalid number " + tok.Value)
		}
		in := int(n)
		return &precclimbExpr{Terminal: &in}
	}
}

func precclimbIsOp(rn rune) bool {
	return strings.ContainsRune("+-*/^", rn)
}

func precclimbPeek(lex *lexer.PeekingLexer) *lexer.Token {
	return lex.Peek()
}

func precclimbParseOp(op string, lhs *precclimbExpr, rhs *precclimbExpr) *precclimbExpr {
	return &precclimbExpr{
		Op:    op,
		Left:  lhs,
		Right: rhs,
	}
}

var precclimbParser = mustBuild[precclimbExpr]()

func init() {
	f := Register("precedenceclimbing", precclimbParser, nil,
		`1 + 2 - 3 * (4 + 2)`,
		`1`,
		`2 ^ 3 ^ 2`,
		`(1 + 2) * 3 / 4`,
	)
	f.Nesting = func(n int) string {
		return strings.Repeat("(", n) + "1" + strings.Repeat(")", n)
	}
	f.Flat = func(n int) string {
		if n < 1 {
			n = 1
		}
		return "1" + strings.Repeat(" + 1", n-1)
	}
}
