package fixtures

import (
	"fmt"
	"strconv"
	"strings"
	"text/scanner"

	"github.com/alecthomas/participle/v2"
	"github.com/alecthomas/participle/v2/lexer"
)

// Ported from /repo/_examples/expr4/main.go (custom precedence-climbing parser via ParseTypeWith).

type expr4OperatorPrec struct{ Left, Right int }

var expr4OperatorPrecs = map[string]expr4OperatorPrec{
	"+": {1, 1},
	"-": {1, 1},
	"*": {3, 2},
	"/": {5, 4},
	"%": {7, 6},
}

type (
	expr4Expr interface{ expr() }

	expr4ExprIdent  struct{ Name string }
	expr4ExprString struct{ Value string }
	expr4ExprNumber struct{ Value float64 }
	expr4ExprParens struct{ Sub expr4Expr }

	expr4ExprUnary struct {
		Op  string
		Sub expr4Expr
	}

	expr4ExprBinary struct {
		Lhs expr4Expr
		Op  string
		Rhs expr4Expr
	}
)

func (expr4ExprIdent) expr()  {}
func (expr4ExprString) expr() {}
func (expr4ExprNumber) expr() {}
func (expr4ExprParens) expr() {}
func (expr4ExprUnary) expr()  {}
func (expr4ExprBinary) expr() {}

func expr4ParseExprAny(lex *lexer.PeekingLexer) (expr4Expr, error) { return expr4ParseExprPrec(lex, 0) }

func expr4ParseExprAtom(lex *lexer.PeekingLexer) (expr4Expr, error) {
	switch peek := lex.Peek(); {
	case peek.Type == scanner.Ident:
		return expr4ExprIdent{lex.Next().Value}, nil
	case peek.Type == scanner.String:
		val, err := strconv.Unquote(lex.Next().Value)
		if err != nil {
			return nil, err
		}
		return expr4ExprString{val}, nil
	case peek.Type == scanner.Int || peek.Type == scanner.Float:
		val, err := strconv.ParseFloat(lex.Next().Value, 64)
		if err != nil {
			return nil, err
		}
		return expr4ExprNumber{val}, nil
	case peek.Value == "(":
		_ = lex.Next()
		inner, err := expr4ParseExprAny(lex)
		if err != nil {
			return nil, err
		}
		if lex.Peek().Value != ")" {
			return nil, fmt.Errorf("expected closing ')'")
		}
		_ = lex.Next()
		return expr4ExprParens{inner}, nil
	default:
		return nil, participle.NextMatch
	}
}

func expr4ParseExprPrec(lex *lexer.PeekingLexer, minPrec int) (expr4Expr, error) {
	var lhs expr4Expr
	if peeked := lex.Peek(); peeked.Value == "-" || peeked.Value == "!" {
		op := lex.Next().Value
		atom, err := expr4ParseExprAtom(lex)
		if err != nil {
			return nil, err
		}
		lhs = expr4ExprUnary{op, atom}
	} else {
		atom, err := expr4ParseExprAtom(lex)
		if err != nil {
			return nil, err
		}
		lhs = atom
	}

	for {
		peek := lex.Peek()
		prec, isOp := expr4OperatorPrecs[peek.Value]
		if !isOp || prec.Left < minPrec {
			break
		}
		op := lex.Next().Value
		rhs, err := expr4ParseExprPrec(lex, prec.Right)
		if err != nil {
			return nil, err
		}
		lhs = expr4ExprBinary{lhs, op, rhs}
	}
	return lhs, nil
}

type expr4Expression struct {
	X expr4Expr `@@`
}

var expr4Parser = mustBuild[expr4Expression](participle.ParseTypeWith(expr4ParseExprAny))

func init() {
	f := Register("expr4", expr4Parser, nil,
		`1`,
		`1.5`,
		`"a"`,
		`(1)`,
		`1+1`,
		`1%1`,
		`a - -b`,
		`a + b - c * d / e % f`,
		`a * b + c * d`,
		`(a + b) * (c + d)`,
	)
	f.Nesting = func(n int) string {
		return strings.Repeat("(", n) + "1" + strings.Repeat(")", n)
	}
	f.Flat = func(n int) string {
		if n < 1 {
			n = 1
		}
		return "1" + strings.Repeat(" + 1", n-1)
	}
}
