package fixtures

import (
	"strings"

	"github.com/alecthomas/participle/v2"
)

// Ported from /repo/_examples/expr2/main.go.
//
// Based on http://www.craftinginterpreters.com/parsing-expressions.html

// expression     → equality ;
// equality       → comparison ( ( "!=" | "==" ) comparison )* ;
// comparison     → addition ( ( ">" | ">=" | "<" | "<=" ) addition )* ;
// addition       → multiplication ( ( "-" | "+" ) multiplication )* ;
// multiplication → unary ( ( "/" | "*" ) unary )* ;
// unary          → ( "!" | "-" ) unary
//                | primary ;
// primary        → NUMBER | STRING | "false" | "true" | "nil"
//                | "(" expression ")" ;

type expr2Expression struct {
	Equality *expr2Equality `@@`
}

type expr2Equality struct {
	Comparison *expr2Comparison `@@`
	Op         string           `( @( "!" "=" | "=" "=" )`
	Next       *expr2Equality   `  @@ )*`
}

type expr2Comparison struct {
	Addition *expr2Addition   `@@`
	Op       string           `( @( ">" | ">" "=" | "<" | "<" "=" )`
	Next     *expr2Comparison `  @@ )*`
}

type expr2Addition struct {
	Multiplication *expr2Multiplication `@@`
	Op             string               `( @( "-" | "+" )`
	Next           *expr2Addition       `  @@ )*`
}

type expr2Multiplication struct {
	Unary *expr2Unary          `@@`
	Op    string               `( @( "/" | "*" )`
	Next  *expr2Multiplication `  @@ )*`
}

type expr2Unary struct {
	Op      string        `  ( @( "!" | "-" )`
	Unary   *expr2Unary   `    @@ )`
	Primary *expr2Primary `| @@`
}

type expr2Primary struct {
	Number        *float64         `  @Float | @Int`
	String        *string          `| @String`
	Bool          *expr2Boolean    `| @( "true" | "false" )`
	Nil           bool             `| @"nil"`
	SubExpression *expr2Expression `| "(" @@ ")" `
}

type expr2Boolean bool

func (b *expr2Boolean) Capture(values []string) error {
	*b = values[0] == "true"
	return nil
}

var expr2Parser = mustBuild[expr2Expression](participle.UseLookahead(2))

func init() {
	f := Register("expr2", expr2Parser, nil,
		`1 + 2 / 3 * (1 + 2)`,
		`1 + false`,
		`1`,
		`!true == false != nil`,
		`-1.5 < 2 > "str"`,
	)
	f.Nesting = func(n int) string {
		return strings.Repeat("(", n) + "1" + strings.Repeat(")", n)
	}
	f.Flat = func(n int) string {
		if n < 1 {
			n = 1
		}
		return "1" + strings.Repeat(" + 1", n-1)
	}
}
