package fixtures

import (
	"fmt"
	"strings"

	"github.com/alecthomas/participle/v2"
	"github.com/alecthomas/participle/v2/lexer"
)

// Ported from /repo/_examples/microc/main.go.
//
// https://www.it.uu.se/katalog/aleji304/CompilersProject/uc.html

type microcProgram struct {
	Pos lexer.Position

	TopDec []*microcTopDec `@@*`
}

type microcTopDec struct {
	Pos lexer.Position

	FunDec *microcFunDec `  @@`
	VarDec *microcVarDec `| @@ ";"`
}

type microcVarDec struct {
	Pos lexer.Position

	ArrayDec  *microcArrayDec  `  @@`
	ScalarDec *microcScalarDec `| @@`
}

type microcScalarDec struct {
	Pos lexer.Position

	Type string `@Type`
	Name string `@Ident`
}

type microcArrayDec struct {
	Pos  lexer.Position
	Type string `@Type`
	Name string `@Ident`
	Size int    `"[" @Int "]"`
}

type microcReturnStmt struct {
	Pos lexer.Position

	Result *microcExpr `"return" @@?`
}

type microcWhileStmt struct {
	Pos lexer.Position

	Condition *microcExpr `"while" "(" @@ ")"`
	Body      *microcStmt `@@`
}

type microcIfStmt struct {
	Pos lexer.Position

	Condition *microcExpr `"if" "(" @@ ")"`
	Body      *microcStmt `@@`
	Else      *microcStmt `("else" @@)?`
}

type microcStmts struct {
	Pos lexer.Position

	Stmts []*microcStmt `@@*`
}

type microcStmt struct {
	Pos lexer.Position

	IfStmt     *microcIfStmt     `  @@`
	ReturnStmt *microcReturnStmt `| @@`
	WhileStmt  *microcWhileStmt  `| @@`
	Block      *microcStmts      `| "{" @@ "}"`
	Expr       *microcExpr       `| @@`
	Empty      bool              `| @";"`
}

type microcFunBody struct {
	Pos lexer.Position

	Locals []*microcVarDec `(@@ ";")*`
	Stmts  *microcStmts    `@@`
}

type microcFunDec struct {
	Pos lexer.Position

	ReturnType string             `@(Type | "void")`
	Name       string             `@Ident`
	Parameters []*microcParameter `"(" ((@@ ("," @@)*) | "void") ")"`
	FunBody    *microcFunBody     `(";" | "{" @@ "}")`
}

type microcParameter struct {
	Pos lexer.Position

	Array  *microcArrayParameter `  @@`
	Scalar *microcScalarDec      `| @@`
}

type microcArrayParameter struct {
	Pos lexer.Position

	Type  string `@Type`
	Ident string `@Ident "[" "]"`
}

type microcExpr struct {
	Pos lexer.Position

	Assignment *microcAssignment `@@`
}

type microcAssignment struct {
	Pos lexer.Position

	Equality *microcEquality `@@`
	Op       string          `( @"="`
	Next     *microcEquality `  @@ )?`
}

type microcEquality struct {
	Pos lexer.Position

	Comparison *microcComparison `@@`
	Op         string            `[ @( "!" "=" | "=" "=" )`
	Next       *microcEquality   `  @@ ]`
}

type microcComparison struct {
	Pos lexer.Position

	Addition *microcAddition   `@@`
	Op       string            `[ @( ">" "=" | ">" | "<" "=" | "<" )`
	Next     *microcComparison `  @@ ]`
}

type microcAddition struct {
	Pos lexer.Position

	Multiplication *microcMultiplication `@@`
	Op             string                `[ @( "-" | "+" )`
	Next           *microcAddition       `  @@ ]`
}

type microcMultiplication struct {
	Pos lexer.Position

	Unary *microcUnary          `@@`
	Op    string                `[ @( "/" | "*" )`
	Next  *microcMultiplication `  @@ ]`
}

type microcUnary struct {
	Pos lexer.Position

	Op      string         `  ( @( "!" | "-" )`
	Unary   *microcUnary   `    @@ )`
	Primary *microcPrimary `| @@`
}

type microcPrimary struct {
	Pos lexer.Position

	Number        *int              `  @Int`
	ArrayIndex    *microcArrayIndex `| @@`
	CallFunc      *microcCallFunc   `| @@`
	Ident         string            `| @Ident`
	SubExpression *microcExpr       `| "(" @@ ")" `
}

type microcArrayIndex struct {
	Pos lexer.Position

	Ident string        `@Ident`
	Index []*microcExpr `("[" @@ "]")+`
}

type microcCallFunc struct {
	Pos lexer.Position

	Ident string        `@Ident`
	Index []*microcExpr `"(" (@@ ("," @@)*)? ")"`
}

var (
	microcLex = lexer.MustSimple([]lexer.SimpleRule{
		{Name: "comment", Pattern: `//.*|/\*.*?\*/`},
		{Name: "whitespace", Pattern: `\s+`},

		{Name: "Type", Pattern: `\b(int|char)\b`},
		{Name: "Ident", Pattern: `\b([a-zA-Z_][a-zA-Z0-9_]*)\b`},
		{Name: "Punct", Pattern: `[-,()*/+%{};&!=:<>]|\[|\]`},
		{Name: "Int", Pattern: `\d+`},
	})
	microcParser = mustBuild[microcProgram](
		participle.Lexer(microcLex),
		participle.UseLookahead(2))
)

const microcSample = `
/* This is an example uC program. */
void putint(int i);

int fac(int n)
{
    if (n < 2)
        return n;
    return n * fac(n - 1);
}

int sum(int n, int a[])
{
    int i;
    int s;

    i = 0;
    s = 0;
    while (i <= n) {
        s = s + a[i];
        i = i + 1;
    }
    return s;
}

int main(void)
{
    int a[2];

    a[0] = fac(5);
    a[1] = 27;
    putint(sum(2, a)); // prints 147
    return 0;
}
`

func init() {
	f := Register("microc", microcParser, nil,
		microcSample,
		`int x;`,
		`char buf[16];
int main(void) { return 0; }`,
		`void f(int a, char b[]) {
    if (a == 1) { a = a + 1; } else a = -a;
    while (!a) ;
}`,
		``,
	)
	f.Nesting = func(n int) string {
		return "int main(void)\n{\n    return " + strings.Repeat("(", n) + "1" + strings.Repeat(")", n) + ";\n}\n"
	}
	f.Flat = func(n int) string {
		var sb strings.Builder
		sb.WriteString("int main(void)\n{\n    int x;\n")
		for i := 0; i < n; i++ {
			fmt.Fprintf(&sb, "    x = x + %d;\n", i)
		}
		sb.WriteString("    return x;\n}\n")
		return sb.String()
	}
}
