package fixtures

import (
	"fmt"
	"strings"

	"github.com/alecthomas/participle/v2"
	"github.com/alecthomas/participle/v2/lexer"
)

// Ported from /repo/_examples/basic/ast.go and main.go (a BASIC interpreter; evaluation dropped).

type basicProgram struct {
	Pos lexer.Position

	Commands []*basicCommand `@@*`

	Table map[int]*basicCommand
}

type basicCommand struct {
	Pos lexer.Position

	Index int

	Line int `@Number`

	Remark *basicRemark `(   @@`
	Input  *basicInput  `  | @@`
	Let    *basicLet    `  | @@`
	Goto   *basicGoto   `  | @@`
	If     *basicIf     `  | @@`
	Print  *basicPrint  `  | @@`
	Call   *basicCall   `  | @@ ) EOL`
}

type basicRemark struct {
	Pos lexer.Position

	Comment string `@Comment`
}

type basicCall struct {
	Pos lexer.Position

	Name string             `@Ident`
	Args []*basicExpression `"(" ( @@ ( "," @@ )* )? ")"`
}

type basicPrint struct {
	Pos lexer.Position

	Expression *basicExpression `"PRINT" @@`
}

type basicInput struct {
	Pos lexer.Position

	Variable string `"INPUT" @Ident`
}

type basicLet struct {
	Pos lexer.Position

	Variable string           `"LET" @Ident`
	Value    *basicExpression `"=" @@`
}

type basicGoto struct {
	Pos lexer.Position

	Line int `"GOTO" @Number`
}

type basicIf struct {
	Pos lexer.Position

	Condition *basicExpression `"IF" @@`
	Line      int              `"THEN" @Number`
}

type basicOperator string

func (o *basicOperator) Capture(s []string) error {
	*o = basicOperator(strings.Join(s, ""))
	return nil
}

type basicValue struct {
	Pos lexer.Position

	Number        *float64         `  @Number`
	Variable      *string          `| @Ident`
	String        *string          `| @String`
	Call          *basicCall       `| @@`
	Subexpression *basicExpression `| "(" @@ ")"`
}

type basicFactor struct {
	Pos lexer.Position

	Base     *basicValue `@@`
	Exponent *basicValue `( "^" @@ )?`
}

type basicOpFactor struct {
	Pos lexer.Position

	Operator basicOperator `@("*" | "/")`
	Factor   *basicFactor  `@@`
}

type basicTerm struct {
	Pos lexer.Position

	Left  *basicFactor     `@@`
	Right []*basicOpFactor `@@*`
}

type basicOpTerm struct {
	Pos lexer.Position

	Operator basicOperator `@("+" | "-")`
	Term     *basicTerm    `@@`
}

type basicCmp struct {
	Pos lexer.Position

	Left  *basicTerm     `@@`
	Right []*basicOpTerm `@@*`
}

type basicOpCmp struct {
	Pos lexer.Position

	Operator basicOperator `@("=" | "<" "=" | ">" "=" | "<" | ">" | "!" "=")`
	Cmp      *basicCmp     `@@`
}

type basicExpression struct {
	Pos lexer.Position

	Left  *basicCmp     `@@`
	Right []*basicOpCmp `@@*`
}

var (
	basicLexer = lexer.MustSimple([]lexer.SimpleRule{
		{Name: "Comment", Pattern: `(?i)rem[^\n]*`},
		{Name: "String", Pattern: `"(\\"|[^"])*"`},
		{Name: "Number", Pattern: `[-+]?(\d*\.)?\d+`},
		{Name: "Ident", Pattern: `[a-zA-Z_]\w*`},
		{Name: "Punct", Pattern: `[-[!@#$%^&*()+_={}\|:;"'<,>.?/]|]`},
		{Name: "EOL", Pattern: `[\n\r]+`},
		{Name: "whitespace", Pattern: `[ \t]+`},
	})

	basicParser = mustBuild[basicProgram](
		participle.Lexer(basicLexer),
		participle.CaseInsensitive("Ident"),
		participle.Unquote("String"),
		participle.UseLookahead(2),
	)
)

func init() {
	f := Register("basic", basicParser, nil,
		`5  REM inputting the argument
10  PRINT "Factorial of:"
20  INPUT A
30  LET B = 1
35  REM beginning of the loop
40  IF A <= 1 THEN 80
50  LET B = B * A
60  LET A = A - 1
70  GOTO 40
75  REM prints the result
80  PRINT B
`,
		`10 PRINT "Give the hidden number: "
20 INPUT N
30 PRINT "Give a number: "
40 INPUT R
50 IF R = N THEN 110
60 IF R < N THEN 90
70 PRINT "C-"
80 GOTO 30
90 PRINT "C+"
100 GOTO 30
110 PRINT "CONGRATULATIONS"
`,
		`10 let x = (1 + 2) * (3 + 4) ^ 2 / y
20 print x >= 2
30 DOIT(1, "a")
40 NOARGS()
`,
		"10 PRINT 1\n",
		``,
	)
	f.Nesting = func(n int) string {
		return "10 PRINT " + strings.Repeat("(", n) + "1" + strings.Repeat(")", n) + "\n"
	}
	f.Flat = func(n int) string {
		var sb strings.Builder
		for i := 0; i < n; i++ {
			fmt.Fprintf(&sb, "%d LET A = %d\n", (i+1)*10, i)
		}
		return sb.String()
	}
}
