package fixtures

import (
	"fmt"
	"strings"

	"github.com/alecthomas/participle/v2"
	"github.com/alecthomas/participle/v2/lexer"
)

// Ported from /repo/_examples/toml/main.go.

type tomlTOML struct {
	Pos lexer.Position

	Entries []*tomlEntry `@@*`
}

type tomlEntry struct {
	Field   *tomlField   `  @@`
	Section *tomlSection `| @@`
}

type tomlField struct {
	Key   string     `@Ident "="`
	Value *tomlValue `@@`
}

type tomlValue struct {
	String   *string      `  @String`
	DateTime *string      `| @DateTime`
	Date     *string      `| @Date`
	Time     *string      `| @Time`
	Bool     *bool        `| (@"true" | "false")`
	Number   *float64     `| @Number`
	List     []*tomlValue `| "[" ( @@ ( "," @@ )* )? "]"`
}

type tomlSection struct {
	Name   string       `"[" @(Ident ( "." Ident )*) "]"`
	Fields []*tomlField `@@*`
}

var (
	tomlLexer = lexer.MustSimple([]lexer.SimpleRule{
		{Name: "DateTime", Pattern: `\d\d\d\d-\d\d-\d\dT\d\d:\d\d:\d\d(\.\d+)?(-\d\d:\d\d)?`},
		{Name: "Date", Pattern: `\d\d\d\d-\d\d-\d\d`},
		{Name: "Time", Pattern: `\d\d:\d\d:\d\d(\.\d+)?`},
		{Name: "Ident", Pattern: `[a-zA-Z_][a-zA-Z_0-9]*`},
		{Name: "String", Pattern: `"[^"]*"`},
		{Name: "Number", Pattern: `[-+]?[.0-9]+\b`},
		{Name: "Punct", Pattern: `\[|]|[-!()+/*=,]`},
		{Name: "comment", Pattern: `#[^\n]+`},
		{Name: "whitespace", Pattern: `\s+`},
	})
	tomlParser = mustBuild[tomlTOML](
		participle.Lexer(tomlLexer),
		participle.Unquote("String"),
	)
)

func init() {
	f := Register("toml", tomlParser, nil,
		`
# This is a TOML document.

title = "TOML Example"

[owner]
name = "Tom Preston-Werner"
dob = 1979-05-27T07:32:00-08:00 # First class dates

[database]
server = "192.168.1.1"
ports = [ 8001, 8001, 8002 ]
connection_max = 5000
enabled = true
enabled = false

[servers]

  # Indentation (tabs and/or spaces) is allowed but not required
  [servers.alpha]
  ip = "10.0.0.1"
  dc = "eqdc10"

  [servers.beta]
  ip = "10.0.0.2"
  dc = "eqdc10"

[clients]
data = [ ["gamma", "delta"], [1, 2] ]

# Line breaks are OK when inside arrays
hosts = [
  "alpha",
  "omega"
]
`,
		`a = 1`,
		`date = 1979-05-27
time = 07:32:00.5
pi = 3.14
neg = -7
empty = []`,
		`[a.b.c]
x = "y"`,
		``,
	)
	f.Nesting = func(n int) string {
		return "x = " + strings.Repeat("[", n) + "1" + strings.Repeat("]", n) + "\n"
	}
	f.Flat = func(n int) string {
		var sb strings.Builder
		for i := 0; i < n; i++ {
			fmt.Fprintf(&sb, "key%d = %d\n", i, i)
		}
		return sb.String()
	}
}
