// Package fixtures holds hand-ported copies of the repository's realistic example grammars
// (/repo/_examples/*, which are `package main` in another module and cannot be imported) together
// with sample inputs. They are fixtures: the code under test is the library.
package fixtures

import (
	"bytes"
	"fmt"
	"io"
	"reflect"
	"sort"
	"strings"
	"testing/iotest"

	"github.com/alecthomas/participle/v2"
	"github.com/alecthomas/participle/v2/lexer"
)

// Fixture is one ported grammar behind a type-erased interface.
type Fixture struct {
	Name    string
	Samples []string // valid sample inputs
	// Parse runs one of the entry points: "string", "bytes", "reader".
	Parse func(entry, filename string, input []byte, opts ...participle.ParseOption) (ast any, err error)
	// ParseFromLexer parses from an already upgraded lexer.
	ParseFromLexer func(pl *lexer.PeekingLexer, opts ...participle.ParseOption) (ast any, err error)
	// Lex tokenises with the parser's own lexer (Parser.Lex).
	Lex func(filename string, input []byte) ([]lexer.Token, error)
	// Def is the parser's lexer definition (Parser.Lexer()).
	Def func() lexer.Definition
	// EBNF is Parser.String().
	EBNF func() string
	// Elided lists the elided token type names.
	Elided []string
	// Nesting builds a valid input nested n levels deep (nil if the grammar has no nesting).
	Nesting func(n int) string
	// Flat builds a valid flat input of about n items.
	Flat func(n int) string
	// Sub parses SubSample with a parser derived for an inner production (participle.ParserForProduction); nil if
	// the fixture has none.
	Sub       func() (any, error)
	SubSample string
}

// WithSub registers a derived parser for production P of the fixture's grammar.
func WithSub[P, G any](f *Fixture, p *participle.Parser[G], sample string) {
	f.SubSample = sample
	f.Sub = func() (any, error) {
		sp, err := participle.ParserForProduction[P](p)
		if err != nil {
			return nil, err
		}
		v, err := sp.ParseString("sub", sample)
		if v == nil {
			return nil, err
		}
		return v, err
	}
}

// NamedReader is a reader with a Name method (like *os.File): Parse falls back to it when no filename is given.
type NamedReader struct{ io.Reader }

// ReaderName is what NamedReader.Name returns.
const ReaderName = "reader-name.x"

func (NamedReader) Name() string { return ReaderName }

var registry = map[string]*Fixture{}

// BuildFailure is an example grammar that participle.Build no longer accepts (every one of them builds on the tree
// the fixtures were ported from; none is left-recursive).
type BuildFailure struct {
	Grammar string
	Msg     string
}

// BuildFailures lists the example grammars whose Build failed or panicked; their fixtures are not registered.
var BuildFailures []BuildFailure

// Examples lists the root types of the example grammars, in build order.
var Examples []string

// ExampleBuild reports what participle.Build said about the example grammar with that root type.
func ExampleBuild(name string) (built bool, msg string) {
	for _, f := range BuildFailures {
		if f.Grammar == name {
			return false, f.Msg
		}
	}
	return true, ""
}

// mustBuild is participle.Build for the package-level example parsers: a failure is recorded, not fatal, so that
// the checks can report it.
func mustBuild[G any](opts ...participle.Option) (p *participle.Parser[G]) {
	var g G
	name := reflect.TypeOf(g).Name()
	Examples = append(Examples, name)
	defer func() {
		if r := recover(); r != nil {
			BuildFailures = append(BuildFailures, BuildFailure{name, fmt.Sprintf("Build panicked: %v", r)})
			p = nil
		}
	}()
	p, err := participle.Build[G](opts...)
	if err != nil {
		BuildFailures = append(BuildFailures, BuildFailure{name, "Build returned: " + err.Error()})
		return nil
	}
	return p
}

// Register adds a fixture built from a typed parser.
func Register[G any](name string, p *participle.Parser[G], elided []string, samples ...string) *Fixture {
	f := &Fixture{Name: name, Samples: samples, Elided: elided}
	f.Parse = func(entry, filename string, input []byte, opts ...participle.ParseOption) (any, error) {
		var (
			ast *G
			err error
		)
		switch entry {
		case "bytes":
			// the buffer is the caller's: it is reused as soon as the call has returned
			buf := append([]byte(nil), input...)
			ast, err = p.ParseBytes(filename, buf, opts...)
			for i := range buf {
				buf[i] = '#'
			}
		case "reader":
			ast, err = p.Parse(filename, bytes.NewReader(input), opts...)
		case "namedreader":
			ast, err = p.Parse(filename, NamedReader{bytes.NewReader(input)}, opts...)
		case "dataerr":
			ast, err = p.Parse(filename, iotest.DataErrReader(bytes.NewReader(input)), opts...)
		case "onebyte":
			ast, err = p.Parse(filename, iotest.OneByteReader(bytes.NewReader(input)), opts...)
		case "slowreader":
			ast, err = p.Parse(filename, io.MultiReader(bytes.NewReader(input[:len(input)/2]), strings.NewReader(string(input[len(input)/2:]))), opts...)
		default:
			ast, err = p.ParseString(filename, string(input), opts...)
		}
		if ast == nil {
			return nil, err // avoid a typed nil in the interface
		}
		return ast, err
	}
	f.ParseFromLexer = func(pl *lexer.PeekingLexer, opts ...participle.ParseOption) (any, error) {
		ast, err := p.ParseFromLexer(pl, opts...)
		if ast == nil {
			return nil, err
		}
		return ast, err
	}
	f.Lex = func(filename string, input []byte) ([]lexer.Token, error) {
		return p.Lex(filename, bytes.NewReader(input))
	}
	f.Def = func() lexer.Definition { return p.Lexer() }
	f.EBNF = func() string { return p.String() }
	if p != nil {
		registry[name] = f
	}
	return f
}

// All returns the fixtures sorted by name.
func All() []*Fixture {
	names := make([]string, 0, len(registry))
	for n := range registry {
		names = append(names, n)
	}
	sort.Strings(names)
	out := make([]*Fixture, 0, len(names))
	for _, n := range names {
		out = append(out, registry[n])
	}
	return out
}

// Get returns a fixture by name (nil if unknown).
func Get(name string) *Fixture { return registry[name] }

// IsNil reports whether an AST returned through the type-erased interface is nil.
func IsNil(ast any) bool {
	if ast == nil {
		return true
	}
	v := reflect.ValueOf(ast)
	return v.Kind() == reflect.Ptr && v.IsNil()
}
