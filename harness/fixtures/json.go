package fixtures

import (
	"strconv"
	"strings"

	"github.com/alecthomas/participle/v2"
	"github.com/alecthomas/participle/v2/lexer"
)

// Ported from /repo/_examples/json/main.go.

var (
	jsonLexer = lexer.MustSimple([]lexer.SimpleRule{
		{Name: "Comment", Pattern: `\/\/[^\n]*`},
		{Name: "String", Pattern: `"(\\"|[^"])*"`},
		{Name: "Number", Pattern: `[-+]?(\d*\.)?\d+`},
		{Name: "Punct", Pattern: `[-[!@#$%^&*()+_={}\|:;"'<,>.?/]|]`},
		{Name: "Null", Pattern: "null"},
		{Name: "True", Pattern: "true"},
		{Name: "False", Pattern: "false"},
		{Name: "EOL", Pattern: `[\n\r]+`},
		{Name: "Whitespace", Pattern: `[ \t]+`},
	})

	jsonParser = mustBuild[jsonJson](
		participle.Lexer(jsonLexer),
		participle.Unquote("String"),
		participle.Elide("Whitespace", "EOL"),
		participle.UseLookahead(2),
	)
)

type jsonJson struct {
	Pos lexer.Position

	Object *jsonObject `parser:"@@ |"`
	Array  *jsonArray  `parser:"@@ |"`
	Number *string     `parser:"@Number |"`
	String *string     `parser:"@String |"`
	False  *string     `parser:"@False |"`
	True   *string     `parser:"@True |"`
	Null   *string     `parser:"@Null"`
}

type jsonObject struct {
	Pos lexer.Position

	Pairs []*jsonPair `parser:"'{' @@ (',' @@)* '}'"`
}

type jsonPair struct {
	Pos lexer.Position

	Key   string    `parser:"@String ':'"`
	Value *jsonJson `parser:"@@"`
}

type jsonArray struct {
	Pos lexer.Position

	Items []*jsonJson `parser:"'[' @@ (',' @@)* ']'"`
}

func init() {
	f := Register("json", jsonParser, []string{"Whitespace", "EOL"},
		`{
    "list": [1, 1.2, 1, -1, {"foo": "bar"}, true, false, null],
    "object": {
        "foo1": "bar2",
        "foo2": true,
        "foo3": false,
        "foo4": null,
        "foo5": 1,
        "foo6": "ss"
    }
}`,
		`[1, 2, 3]`,
		`"just a string"`,
		`{"a": {"b": {"c": [true, false, null, -0.5]}}}`,
		`42`,
		`null`,
	)
	f.Nesting = func(n int) string {
		return strings.Repeat("[", n) + "1" + strings.Repeat("]", n)
	}
	f.Flat = func(n int) string {
		if n < 1 {
			n = 1
		}
		items := make([]string, n)
		for i := range items {
			items[i] = strconv.Itoa(i)
		}
		return "[" + strings.Join(items, ", ") + "]"
	}
}
