package fixtures

import (
	"fmt"
	"strings"

	"github.com/alecthomas/participle/v2"
	"github.com/alecthomas/participle/v2/lexer"
)

// Ported from /repo/_examples/sql/main.go.

type sqlBoolean bool

func (b *sqlBoolean) Capture(values []string) error {
	*b = values[0] == "TRUE"
	return nil
}

// sqlSelect is based on http://www.h2database.com/html/grammar.html
type sqlSelect struct {
	Top        *sqlTerm             `"SELECT" ( "TOP" @@ )?`
	Distinct   bool                 `(  @"DISTINCT"`
	All        bool                 ` | @"ALL" )?`
	Expression *sqlSelectExpression `@@`
	From       *sqlFrom             `"FROM" @@`
	Limit      *sqlExpression       `( "LIMIT" @@ )?`
	Offset     *sqlExpression       `( "OFFSET" @@ )?`
	GroupBy    *sqlExpression       `( "GROUP" "BY" @@ )?`
}

type sqlFrom struct {
	TableExpressions []*sqlTableExpression `@@ ( "," @@ )*`
	Where            *sqlExpression        `( "WHERE" @@ )?`
}

type sqlTableExpression struct {
	Table  string           `( @Ident ( "." @Ident )*`
	Select *sqlSelect       `  | "(" @@ ")"`
	Values []*sqlExpression `  | "VALUES" "(" @@ ( "," @@ )* ")")`
	As     string           `( "AS" @Ident )?`
}

type sqlSelectExpression struct {
	All         bool                    `  @"*"`
	Expressions []*sqlAliasedExpression `| @@ ( "," @@ )*`
}

type sqlAliasedExpression struct {
	Expression *sqlExpression `@@`
	As         string         `( "AS" @Ident )?`
}

type sqlExpression struct {
	Or []*sqlOrCondition `@@ ( "OR" @@ )*`
}

type sqlOrCondition struct {
	And []*sqlCondition `@@ ( "AND" @@ )*`
}

type sqlCondition struct {
	Operand *sqlConditionOperand `  @@`
	Not     *sqlCondition        `| "NOT" @@`
	Exists  *sqlSelect           `| "EXISTS" "(" @@ ")"`
}

type sqlConditionOperand struct {
	Operand      *sqlOperand      `@@`
	ConditionRHS *sqlConditionRHS `@@?`
}

type sqlConditionRHS struct {
	Compare *sqlCompare `  @@`
	Is      *sqlIs      `| "IS" @@`
	Between *sqlBetween `| "BETWEEN" @@`
	In      *sqlIn      `| "IN" "(" @@ ")"`
	Like    *sqlLike    `| "LIKE" @@`
}

type sqlCompare struct {
	Operator string            `@( "<>" | "<=" | ">=" | "=" | "<" | ">" | "!=" )`
	Operand  *sqlOperand       `(  @@`
	Select   *sqlCompareSelect ` | @@ )`
}

type sqlCompareSelect struct {
	All    bool       `(  @"ALL"`
	Any    bool       ` | @"ANY"`
	Some   bool       ` | @"SOME" )`
	Select *sqlSelect `"(" @@ ")"`
}

type sqlLike struct {
	Not     bool        `[ @"NOT" ]`
	Operand *sqlOperand `@@`
}

type sqlIs struct {
	Not          bool        `[ @"NOT" ]`
	Null         bool        `( @"NULL"`
	DistinctFrom *sqlOperand `  | "DISTINCT" "FROM" @@ )`
}

type sqlBetween struct {
	Start *sqlOperand `@@`
	End   *sqlOperand `"AND" @@`
}

type sqlIn struct {
	Select      *sqlSelect       `  @@`
	Expressions []*sqlExpression `| @@ ( "," @@ )*`
}

type sqlOperand struct {
	Summand []*sqlSummand `@@ ( "|" "|" @@ )*`
}

type sqlSummand struct {
	LHS *sqlFactor `@@`
	Op  string     `[ @("+" | "-")`
	RHS *sqlFactor `  @@ ]`
}

type sqlFactor struct {
	LHS *sqlTerm `@@`
	Op  string   `( @("*" | "/" | "%")`
	RHS *sqlTerm `  @@ )?`
}

type sqlTerm struct {
	Select        *sqlSelect     `  @@`
	Value         *sqlValue      `| @@`
	SymbolRef     *sqlSymbolRef  `| @@`
	SubExpression *sqlExpression `| "(" @@ ")"`
}

type sqlSymbolRef struct {
	Symbol     string           `@Ident @( "." Ident )*`
	Parameters []*sqlExpression `( "(" @@ ( "," @@ )* ")" )?`
}

type sqlValue struct {
	Wildcard bool        `(  @"*"`
	Number   *float64    ` | @Number`
	String   *string     ` | @String`
	Boolean  *sqlBoolean ` | @("TRUE" | "FALSE")`
	Null     bool        ` | @"NULL"`
	Array    *sqlArray   ` | @@ )`
}

type sqlArray struct {
	Expressions []*sqlExpression `"(" @@ ( "," @@ )* ")"`
}

var (
	sqlLexer = lexer.MustSimple([]lexer.SimpleRule{
		{Name: `Keyword`, Pattern: `(?i)\b(SELECT|FROM|TOP|DISTINCT|ALL|WHERE|GROUP|BY|HAVING|UNION|MINUS|EXCEPT|INTERSECT|ORDER|LIMIT|OFFSET|TRUE|FALSE|NULL|IS|NOT|ANY|SOME|BETWEEN|AND|OR|LIKE|AS|IN)\b`},
		{Name: `Ident`, Pattern: `[a-zA-Z_][a-zA-Z0-9_]*`},
		{Name: `Number`, Pattern: `[-+]?\d*\.?\d+([eE][-+]?\d+)?`},
		{Name: `String`, Pattern: `'[^']*'|"[^"]*"`},
		{Name: `Operators`, Pattern: `<>|!=|<=|>=|[-+*/%,.()=<>]`},
		{Name: "whitespace", Pattern: `\s+`},
	})
	sqlParser = mustBuild[sqlSelect](
		participle.Lexer(sqlLexer),
		participle.Unquote("String"),
		participle.CaseInsensitive("Keyword"),
		// participle.Elide("Comment"),
		// Need to solve left recursion detection first, if possible.
		// participle.UseLookahead(),
	)
)

func init() {
	f := Register("sql", sqlParser, nil,
		`SELECT * FROM table WHERE attr = 10`,
		`select a, b AS bee, t.c from t, u AS you where a >= 1 and b <> 'x' or not c is null limit 10 offset 5`,
		`SELECT DISTINCT name FROM (SELECT * FROM people) AS p WHERE age BETWEEN 18 AND 65 GROUP BY name`,
		`SELECT TOP 5 count(x), upper(name) FROM t WHERE x IN (1, 2, 3) AND name LIKE 'a%'`,
		`SELECT a FROM t WHERE EXISTS (SELECT b FROM u WHERE b = ANY (SELECT c FROM v))`,
		`SELECT 1 + 2, 3 * x, (a - 1) % 2 FROM t`,
	)
	f.Nesting = func(n int) string {
		return "SELECT " + strings.Repeat("(", n) + "1" + strings.Repeat(")", n) + " FROM t"
	}
	f.Flat = func(n int) string {
		if n < 1 {
			n = 1
		}
		cols := make([]string, n)
		for i := range cols {
			cols[i] = fmt.Sprintf("c%d", i)
		}
		return "SELECT " + strings.Join(cols, ", ") + " FROM t"
	}
}
