package fixtures

import "github.com/alecthomas/participle/v2/lexer"

// Lexers returns the stateful lexer definitions of the ported examples (the realistic rule sets
// the lexer properties are also run against), keyed by fixture name.
func Lexers() map[string]*lexer.StatefulDefinition {
	return map[string]*lexer.StatefulDefinition{
		"basic": basicLexer, "graphql": graphqlLexer, "ini": iniLexer, "json": jsonLexer, "microc": microcLex,
		"sql": sqlLexer, "stateful": statefulDef, "thrift": thriftDef, "toml": tomlLexer,
	}
}
