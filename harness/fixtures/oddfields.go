package fixtures

import (
	"fmt"
	"strings"
)

// Not ported: a harness-owned grammar whose capture targets are the unusual field types no example uses --
// slices of pointers to scalars, pointers to pointers, named scalar types, pointers to named numbers.

type (
	oddName  string
	oddCount int16
	oddFlag  bool
)

type oddDoc struct {
	Items []*oddItem `@@*`
	// fields called like the position fields, of other types: ordinary grammar fields
	Tokens []*oddWord `( "[" @@* "]"`
	Pos    string     `  ( "at" @Ident )?`
	EndPos *oddWord   `  ( "to" @@ )? )?`
}

type oddWord struct {
	W string `@Ident`
}

type oddItem struct {
	Ints   []*int     `(  "i" @Int+`
	Floats []*float64 ` | "f" ( @Float | @Int )+`
	Strs   []*string  ` | "s" @Ident+`
	Bools  []*bool    ` | "b" @"yes"+`
	PP     **string   ` | "p" @Ident`
	Name   oddName    ` | "n" @Ident`
	Count  *oddCount  `       ( "=" @Int )?`
	On     oddFlag    `       @"on"? ) ";"`
}

var oddParser = mustBuild[oddDoc]()

func init() {
	f := Register("oddfields", oddParser, nil,
		`i 1 2 3 ;`,
		`f 1.5 2 ; s a b c ; b yes yes ;`,
		`p x ; n name = 7 on ; n other ;`,
		`i 1 ; [ a b c ] at home to bed`,
		`[ ]`,
		``,
	)
	f.Flat = func(n int) string {
		var sb strings.Builder
		for i := 0; i < n; i++ {
			fmt.Fprintf(&sb, "i %d %d ;\n", i, i+1)
		}
		return sb.String()
	}
}
