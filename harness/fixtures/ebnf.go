package fixtures

import (
	"fmt"
	"strings"
)

// Ported from /repo/_examples/ebnf/main.go: an EBNF parser compatible with Go's exp/ebnf.

type ebnfGroup struct {
	Expression *ebnfExpression `"(" @@ ")"`
}

type ebnfOption struct {
	Expression *ebnfExpression `"[" @@ "]"`
}

type ebnfRepetition struct {
	Expression *ebnfExpression `"{" @@ "}"`
}

type ebnfLiteral struct {
	Start string `@String` // Lexer token "String"
	End   string `( "…" @String )?`
}

type ebnfTerm struct {
	Name       string          `@Ident |`
	Literal    *ebnfLiteral    `@@ |`
	Group      *ebnfGroup      `@@ |`
	Option     *ebnfOption     `@@ |`
	Repetition *ebnfRepetition `@@`
}

type ebnfSequence struct {
	Terms []*ebnfTerm `@@+`
}

type ebnfExpression struct {
	Alternatives []*ebnfSequence `@@ ( "|" @@ )*`
}

type ebnfExpressions []*ebnfExpression

type ebnfProduction struct {
	Name        string          `@Ident "="`
	Expressions ebnfExpressions `@@+ "."`
}

type ebnfEBNF struct {
	Productions []*ebnfProduction `@@*`
}

var ebnfParser = mustBuild[ebnfEBNF]()

func init() {
	f := Register("ebnf", ebnfParser, nil,
		`
Production  = name "=" [ Expression ] "." .
  Expression  = Alternative { "|" Alternative } .
  Alternative = Term { Term } .
  Term        = name | token [ "…" token ] | Group | Option | Repetition .
  Group       = "(" Expression ")" .
  Option      = "[" Expression "]" .
  Repetition  = "{" Expression "}" .`,
		`A = "a" .`,
		`Letter = "a" … "z" | "A" … "Z" .
Ident = Letter { Letter | Digit } .`,
		``,
	)
	f.Nesting = func(n int) string {
		return "A = " + strings.Repeat("( ", n) + "b" + strings.Repeat(" )", n) + " ."
	}
	f.Flat = func(n int) string {
		var sb strings.Builder
		for i := 0; i < n; i++ {
			fmt.Fprintf(&sb, "P%d = a | \"b\" .\n", i)
		}
		return sb.String()
	}
}
