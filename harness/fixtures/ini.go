package fixtures

import (
	"fmt"
	"strings"

	"github.com/alecthomas/participle/v2"
	"github.com/alecthomas/participle/v2/lexer"
)

// Ported from /repo/_examples/ini/main.go.

var (
	iniLexer = lexer.MustSimple([]lexer.SimpleRule{
		{Name: `Ident`, Pattern: `[a-zA-Z][a-zA-Z_\d]*`},
		{Name: `String`, Pattern: `"(?:\\.|[^"])*"`},
		{Name: `Float`, Pattern: `\d+(?:\.\d+)?`},
		{Name: `Punct`, Pattern: `[][=]`},
		{Name: "comment", Pattern: `[#;][^\n]*`},
		{Name: "whitespace", Pattern: `\s+`},
	})
	iniParser = mustBuild[iniINI](
		participle.Lexer(iniLexer),
		participle.Unquote("String"),
		participle.Union[iniValue](iniString{}, iniNumber{}),
	)
)

type iniINI struct {
	Properties []*iniProperty `@@*`
	Sections   []*iniSection  `@@*`
}

type iniSection struct {
	Identifier string         `"[" @Ident "]"`
	Properties []*iniProperty `@@*`
}

type iniProperty struct {
	Key   string   `@Ident "="`
	Value iniValue `@@`
}

type iniValue interface{ value() }

type iniString struct {
	String string `@String`
}

func (iniString) value() {}

type iniNumber struct {
	Number float64 `@Float`
}

func (iniNumber) value() {}

func init() {
	f := Register("ini", iniParser, nil,
		`
global = 1

[section]
value = "str"
`,
		`a = "a"
b = 123

# A comment
[numbers]
a = 10.3
b = 20

; Another comment
[strings]
a = "\"quoted\""
b = "b"`,
		`x = 1`,
		`[empty]`,
		``,
	)
	WithSub[iniProperty](f, iniParser, `k = "v"`)
	f.Flat = func(n int) string {
		var sb strings.Builder
		for i := 0; i < n; i++ {
			fmt.Fprintf(&sb, "key%d = %d\n", i, i)
		}
		return sb.String()
	}
}
