package fixtures

import (
	"strings"
)

// Ported from /repo/_examples/simpleexpr/main.go: a simple expression parser that does not capture
// precedence at all.

type simpleexprExpr struct {
	Lhs  *simpleexprValue  `@@`
	Tail []*simpleexprOper `@@*`
}

type simpleexprOper struct {
	Op  string           `@( "|" "|" | "&" "&" | "!" "=" | ("!"|"="|"<"|">") "="? | "+" | "-" | "/" | "*" )`
	Rhs *simpleexprValue `@@`
}

type simpleexprValue struct {
	Number        *float64        `  @Float | @Int`
	String        *string         `| @String`
	Bool          *string         `| ( @"true" | "false" )`
	Nil           bool            `| @"nil"`
	SubExpression *simpleexprExpr `| "(" @@ ")" `
}

var simpleexprParser = mustBuild[simpleexprExpr]()

func init() {
	f := Register("simpleexpr", simpleexprParser, nil,
		`1 + 2 / 3 * (1 + 2)`,
		`1`,
		`"a" == "b" || true && nil != 1.5`,
		`(1 <= 2) >= (3 < 4) > false`,
	)
	f.Nesting = func(n int) string {
		return strings.Repeat("(", n) + "1" + strings.Repeat(")", n)
	}
	f.Flat = func(n int) string {
		if n < 1 {
			n = 1
		}
		return "1" + strings.Repeat(" + 1", n-1)
	}
}
