package fixtures

import (
	"fmt"
	"testing"
)

func TestSamplesParse(t *testing.T) {
	all := All()
	if len(all) == 0 {
		t.Fatal("no fixtures registered")
	}
	for _, f := range all {
		f := f
		t.Run(f.Name, func(t *testing.T) {
			check := func(label, input string) {
				t.Helper()
				ast, err := f.Parse("string", "sample", []byte(input))
				if err != nil {
					t.Errorf("%s: %s does not parse: %v\ninput:\n%s", f.Name, label, err, clip(input))
					return
				}
				if IsNil(ast) {
					t.Errorf("%s: %s parsed to a nil AST", f.Name, label)
				}
			}
			if len(f.Samples) < 3 {
				t.Errorf("%s: only %d samples, want at least 3", f.Name, len(f.Samples))
			}
			for i, s := range f.Samples {
				check(fmt.Sprintf("sample %d", i), s)
			}
			if f.Nesting != nil {
				for _, n := range []int{3, 20} {
					check(fmt.Sprintf("Nesting(%d)", n), f.Nesting(n))
				}
			}
			if f.Flat != nil {
				for _, n := range []int{5, 200} {
					check(fmt.Sprintf("Flat(%d)", n), f.Flat(n))
				}
			}
		})
	}
}

func clip(s string) string {
	const max = 400
	if len(s) > max {
		return s[:max] + "..."
	}
	return s
}
