package fixtures

import (
	"fmt"
	"strings"

	"github.com/alecthomas/participle/v2"
	"github.com/alecthomas/participle/v2/lexer"
)

// Ported from /repo/_examples/thrift/main.go: a parser for Thrift files (https://thrift.apache.org/).
//
// It parses namespaces, exceptions, services, structs, consts, typedefs and enums.
// It also supports annotations and method throws.

type thriftNamespace struct {
	Pos       lexer.Position
	Language  string `"namespace" @Ident`
	Namespace string `@Ident ( @"." @Ident )*`
}

type thriftType struct {
	Pos     lexer.Position
	Name    string      `@Ident ( @"." @Ident )*`
	TypeOne *thriftType `( "<" @@ ( ","`
	TypeTwo *thriftType `           @@ )? ">" )?`
}

type thriftAnnotation struct {
	Pos   lexer.Position
	Key   string         `@Ident ( @"." @Ident )*`
	Value *thriftLiteral `( "=" @@ )?`
}

type thriftField struct {
	Pos         lexer.Position
	ID          string              `@Number ":"`
	Requirement string              `@( "optional" | "required" )?`
	Type        *thriftType         `@@`
	Name        string              `@Ident`
	Default     *thriftLiteral      `( "=" @@ )?`
	Annotations []*thriftAnnotation `( "(" @@ ( "," @@ )* ")" )? ";"?`
}

type thriftException struct {
	Pos         lexer.Position
	Name        string              `"exception" @Ident "{"`
	Fields      []*thriftField      `@@ @@* "}"`
	Annotations []*thriftAnnotation `( "(" @@ ( "," @@ )* ")" )?`
}

type thriftStruct struct {
	Pos         lexer.Position
	Union       bool                `( "struct" | @"union" )`
	Name        string              `@Ident "{"`
	Fields      []*thriftField      `@@* "}"`
	Annotations []*thriftAnnotation `( "(" @@ ( "," @@ )* ")" )?`
}

type thriftArgument struct {
	Pos  lexer.Position
	ID   string      `@Number ":"`
	Type *thriftType `@@`
	Name string      `@Ident`
}

type thriftThrow struct {
	Pos  lexer.Position
	ID   string      `@Number ":"`
	Type *thriftType `@@`
	Name string      `@Ident`
}

type thriftMethod struct {
	Pos         lexer.Position
	ReturnType  *thriftType         `@@`
	Name        string              `@Ident`
	Arguments   []*thriftArgument   `"(" ( @@ ( "," @@ )* )? ")"`
	Throws      []*thriftThrow      `( "throws" "(" @@ ( "," @@ )* ")" )?`
	Annotations []*thriftAnnotation `( "(" @@ ( "," @@ )* ")" )?`
}

type thriftService struct {
	Pos         lexer.Position
	Name        string              `"service" @Ident`
	Extends     string              `( "extends" @Ident ( @"." @Ident )* )?`
	Methods     []*thriftMethod     `"{" ( @@ ";"? )* "}"`
	Annotations []*thriftAnnotation `( "(" @@ ( "," @@ )* ")" )?`
}

// Literal is a "union" type, where only one matching value will be present.
type thriftLiteral struct {
	Pos       lexer.Position
	Str       *string          `  @String`
	Number    *float64         `| @Number`
	Bool      *string          `| @( "true" | "false" )`
	Reference *string          `| @Ident ( @"." @Ident )*`
	Minus     *thriftLiteral   `| "-" @@`
	List      []*thriftLiteral `| "[" ( @@ ","? )* "]"`
	Map       []*thriftMapItem `| "{" ( @@ ","? )* "}"`
}

type thriftMapItem struct {
	Pos   lexer.Position
	Key   *thriftLiteral `@@ ":"`
	Value *thriftLiteral `@@`
}

type thriftCase struct {
	Pos         lexer.Position
	Name        string              `@Ident`
	Annotations []*thriftAnnotation `( "(" @@ ( "," @@ )* ")" )?`
	Value       *thriftLiteral      `( "=" @@ )? ( "," | ";" )?`
}

type thriftEnum struct {
	Pos         lexer.Position
	Name        string              `"enum" @Ident "{"`
	Cases       []*thriftCase       `@@* "}"`
	Annotations []*thriftAnnotation `( "(" @@ ( "," @@ )* ")" )?`
}

type thriftTypedef struct {
	Pos  lexer.Position
	Type *thriftType `"typedef" @@`
	Name string      `@Ident`
}

type thriftConst struct {
	Pos   lexer.Position
	Type  *thriftType    `"const" @@`
	Name  string         `@Ident`
	Value *thriftLiteral `"=" @@ ";"?`
}

type thriftEntry struct {
	Pos        lexer.Position
	Includes   []string           `  "include" @String`
	Namespaces []*thriftNamespace `| @@`
	Structs    []*thriftStruct    `| @@`
	Exceptions []*thriftException `| @@`
	Services   []*thriftService   `| @@`
	Enums      []*thriftEnum      `| @@`
	Typedefs   []*thriftTypedef   `| @@`
	Consts     []*thriftConst     `| @@`
}

// Thrift files consist of a set of top-level directives and definitions.
//
// The grammar
type thriftThrift struct {
	Pos     lexer.Position
	Entries []*thriftEntry `@@*`
}

var (
	thriftDef = lexer.MustSimple([]lexer.SimpleRule{
		{Name: "Number", Pattern: `\d+`},
		{Name: "Ident", Pattern: `\w+`},
		{Name: "String", Pattern: `"[^"]*"`},
		{Name: "Whitespace", Pattern: `\s+`},
		{Name: "Punct", Pattern: `[,.<>(){}=:]`},
		{Name: "Comment", Pattern: `//.*`},
	})
	thriftParser = mustBuild[thriftThrift](
		participle.Lexer(thriftDef),
		participle.Unquote(),
		participle.Elide("Whitespace"),
	)
)

const thriftSource = `namespace cpp thrift.example
namespace java thrift.example

enum TweetType {
    TWEET
    RETWEET = 2
    DM = 3
    REPLY
}

struct Location {
    1: required double latitude
    2: required double longitude
}

struct Tweet {
    1: required i32 userId
    2: required string userName
    3: required string text
    4: optional Location loc
    5: optional TweetType tweetType = TweetType.TWEET
    16: optional string language = "english"
}

typedef list<Tweet> TweetList

struct TweetSearchResult {
    1: TweetList tweets
}

exception TwitterUnavailable {
    1: string message
}

const i32 MAX_RESULTS = 100

service Twitter {
    void ping()
    bool postTweet(1:Tweet tweet) throws (1:TwitterUnavailable unavailable)
    TweetSearchResult searchTweets(1:string query)
    void zip()
}`

func init() {
	f := Register("thrift", thriftParser, []string{"Whitespace"},
		thriftSource,
		`include "shared.thrift"`,
		`const i32 ANSWER = 42`,
		`typedef map<string, list<i64>> Index
union U {
    1: string s (go.tag = "x", deprecated)
    2: i32 i = 7
} (cpp.type = "u")
const map<string, i32> M = {"a": 1, "b": 2}
service Child extends base.Parent {
    oneway_void fire(1: i32 a, 2: string b) (priority = "high")
} (version = "1")`,
		``,
	)
	f.Nesting = func(n int) string {
		return "typedef " + strings.Repeat("list<", n) + "i32" + strings.Repeat(">", n) + " Nested"
	}
	f.Flat = func(n int) string {
		var sb strings.Builder
		sb.WriteString("struct S {\n")
		for i := 0; i < n; i++ {
			fmt.Fprintf(&sb, "    %d: required i32 f%d\n", i+1, i)
		}
		sb.WriteString("}\n")
		return sb.String()
	}
}
