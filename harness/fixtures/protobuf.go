package fixtures

import (
	"fmt"
	"strings"

	"github.com/alecthomas/participle/v2"
	"github.com/alecthomas/participle/v2/lexer"
)

// Ported from /repo/_examples/protobuf/main.go.

type protobufProto struct {
	Pos lexer.Position

	Entries []*protobufEntry `( @@ ";"* )*`
}

type protobufEntry struct {
	Pos lexer.Position

	Syntax  string           `  "syntax" "=" @String`
	Package string           `| "package" @(Ident ( "." Ident )*)`
	Import  string           `| "import" @String`
	Message *protobufMessage `| @@`
	Service *protobufService `| @@`
	Enum    *protobufEnum    `| @@`
	Option  *protobufOption  `| "option" @@`
	Extend  *protobufExtend  `| @@`
}

type protobufOption struct {
	Pos lexer.Position

	Name  string         `( "(" @Ident @( "." Ident )* ")" | @Ident @( "." @Ident )* )`
	Attr  *string        `( "." @Ident ( "." @Ident )* )?`
	Value *protobufValue `"=" @@`
}

type protobufValue struct {
	Pos lexer.Position

	String    *string        `  @String`
	Number    *float64       `| @Float`
	Int       *int64         `| @Int`
	Bool      *bool          `| (@"true" | "false")`
	Reference *string        `| @Ident @( "." Ident )*`
	Map       *protobufMap   `| @@`
	Array     *protobufArray `| @@`
}

type protobufArray struct {
	Pos lexer.Position

	Elements []*protobufValue `"[" ( @@ ( ","? @@ )* )? "]"`
}

type protobufMap struct {
	Pos lexer.Position

	Entries []*protobufMapEntry `"{" ( @@ ( ( "," )? @@ )* )? "}"`
}

type protobufMapEntry struct {
	Pos lexer.Position

	Key   *protobufValue `@@`
	Value *protobufValue `":"? @@`
}

type protobufExtensions struct {
	Pos lexer.Position

	Extensions []protobufRange `"extensions" @@ ( "," @@ )*`
}

type protobufReserved struct {
	Pos lexer.Position

	Reserved []protobufRange `"reserved" @@ ( "," @@ )*`
}

type protobufRange struct {
	Ident string `  @String`
	Start int    `| ( @Int`
	End   *int   `  ( "to" ( @Int`
	Max   bool   `           | @"max" ) )? )`
}

type protobufExtend struct {
	Pos lexer.Position

	Reference string           `"extend" @Ident ( "." @Ident )*`
	Fields    []*protobufField `"{" ( @@ ";"? )* "}"`
}

type protobufService struct {
	Pos lexer.Position

	Name  string                  `"service" @Ident`
	Entry []*protobufServiceEntry `"{" ( @@ ";"? )* "}"`
}

type protobufServiceEntry struct {
	Pos lexer.Position

	Option *protobufOption `  "option" @@`
	Method *protobufMethod `| @@`
}

type protobufMethod struct {
	Pos lexer.Position

	Name              string            `"rpc" @Ident`
	StreamingRequest  bool              `"(" @"stream"?`
	Request           *protobufType     `    @@ ")"`
	StreamingResponse bool              `"returns" "(" @"stream"?`
	Response          *protobufType     `              @@ ")"`
	Options           []*protobufOption `( "{" ( "option" @@ ";" )* "}" )?`
}

type protobufEnum struct {
	Pos lexer.Position

	Name   string               `"enum" @Ident`
	Values []*protobufEnumEntry `"{" ( @@ ( ";" )* )* "}"`
}

type protobufEnumEntry struct {
	Pos lexer.Position

	Value  *protobufEnumValue `  @@`
	Option *protobufOption    `| "option" @@`
}

type protobufEnumValue struct {
	Pos lexer.Position

	Key   string `@Ident`
	Value int    `"=" @( [ "-" ] Int )`

	Options []*protobufOption `( "[" @@ ( "," @@ )* "]" )?`
}

type protobufMessage struct {
	Pos lexer.Position

	Name    string                  `"message" @Ident`
	Entries []*protobufMessageEntry `"{" @@* "}"`
}

type protobufMessageEntry struct {
	Pos lexer.Position

	Enum       *protobufEnum       `( @@`
	Option     *protobufOption     ` | "option" @@`
	Message    *protobufMessage    ` | @@`
	Oneof      *protobufOneof      ` | @@`
	Extend     *protobufExtend     ` | @@`
	Reserved   *protobufReserved   ` | @@`
	Extensions *protobufExtensions ` | @@`
	Field      *protobufField      ` | @@ ) ";"*`
}

type protobufOneof struct {
	Pos lexer.Position

	Name    string                `"oneof" @Ident`
	Entries []*protobufOneofEntry `"{" ( @@ ";"* )* "}"`
}

type protobufOneofEntry struct {
	Pos lexer.Position

	Field  *protobufField  `  @@`
	Option *protobufOption `| "option" @@`
}

type protobufField struct {
	Pos lexer.Position

	Optional bool `(   @"optional"`
	Required bool `  | @"required"`
	Repeated bool `  | @"repeated" )?`

	Type *protobufType `@@`
	Name string        `@Ident`
	Tag  int           `"=" @Int`

	Options []*protobufOption `( "[" @@ ( "," @@ )* "]" )?`
}

type protobufScalar int

const (
	protobufNone protobufScalar = iota
	protobufDouble
	protobufFloat
	protobufInt32
	protobufInt64
	protobufUint32
	protobufUint64
	protobufSint32
	protobufSint64
	protobufFixed32
	protobufFixed64
	protobufSFixed32
	protobufSFixed64
	protobufBool
	protobufString
	protobufBytes
)

var protobufStringToScalar = map[string]protobufScalar{
	"double": protobufDouble, "float": protobufFloat, "int32": protobufInt32, "int64": protobufInt64, "uint32": protobufUint32, "uint64": protobufUint64,
	"sint32": protobufSint32, "sint64": protobufSint64, "fixed32": protobufFixed32, "fixed64": protobufFixed64, "sfixed32": protobufSFixed32,
	"sfixed64": protobufSFixed64, "bool": protobufBool, "string": protobufString, "bytes": protobufBytes,
}

func (s *protobufScalar) Parse(lex *lexer.PeekingLexer) error {
	token := lex.Peek()
	v, ok := protobufStringToScalar[token.Value]
	if !ok {
		return participle.NextMatch
	}
	lex.Next()
	*s = v
	return nil
}

type protobufType struct {
	Pos lexer.Position

	Scalar    protobufScalar   `  @@`
	Map       *protobufMapType `| @@`
	Reference string           `| @(Ident ( "." Ident )*)`
}

type protobufMapType struct {
	Pos lexer.Position

	Key   *protobufType `"map" "<" @@`
	Value *protobufType `"," @@ ">"`
}

var protobufParser = mustBuild[protobufProto](participle.UseLookahead(2))

const protobufExample = `syntax = "proto3";

package test.test;

message SearchRequest {
  string query = 1;
  int32 page_number = 2;
  int32 result_per_page = 3;
  map<string, double> scores = 4;

  message Foo {}

  enum Bar {
    FOO = 0;
  }
}

message SearchResponse {
  string results = 1;
}

enum Type {
  INT = 0;
  DOUBLE = 1;
}

service SearchService {
  rpc Search(SearchRequest) returns (SearchResponse);
}
`

func init() {
	f := Register("protobuf", protobufParser, nil,
		protobufExample,
		`syntax = "proto3";`,
		`syntax = "proto2";
import "other.proto";
option java_package = "com.example";
// A message with most kinds of entries.
message M {
  optional string name = 1 [default = "x", deprecated = true];
  repeated int32 ids = 2 [packed = true];
  required foo.Bar bar = 3;
  oneof choice {
    string a = 4;
    int64 b = 5;
  }
  reserved 6, 8 to 10, "old";
  extensions 100 to max;
}
extend M {
  optional int32 ext = 100;
}
`,
		`package a.b;
enum E {
  option allow_alias = true;
  A = 0;
  B = -1 [deprecated = true];
}
service S {
  option deprecated = true;
  rpc Get(stream Req) returns (stream Resp) {
    option (my.opt) = 1;
  }
}
option (custom).attr = { key: "value" list: [1, 2.5, ref.x] };
`,
		``,
	)
	f.Nesting = func(n int) string {
		var sb strings.Builder
		for i := 0; i < n; i++ {
			fmt.Fprintf(&sb, "message M%d {\n", i)
		}
		sb.WriteString("int32 x = 1;\n")
		sb.WriteString(strings.Repeat("}\n", n))
		return sb.String()
	}
	f.Flat = func(n int) string {
		var sb strings.Builder
		sb.WriteString("message M {\n")
		for i := 0; i < n; i++ {
			fmt.Fprintf(&sb, "  int32 f%d = %d;\n", i, i+1)
		}
		sb.WriteString("}\n")
		return sb.String()
	}
}
