package fixtures

import (
	"fmt"
	"strings"

	"github.com/alecthomas/participle/v2"
	"github.com/alecthomas/participle/v2/lexer"
)

// Not ported: a small harness-owned grammar for what none of the repository's examples combines -- a sealed
// interface union whose members are registered by pointer, captured into slice and scalar fields, with
// members that fail several tokens in (best-effort partial ASTs on the error path).

type sxValue interface{ sxValue() }

type sxNum struct {
	Pos lexer.Position
	N   int `@Int`
}

type sxSym struct {
	Name string `@Ident`
}

type sxStr struct {
	S string `@String`
}

type sxList struct {
	Pos    lexer.Position
	EndPos lexer.Position
	Items  []sxValue `"(" @@* ")"`
}

type sxQuote struct {
	V sxValue `"#" @@`
}

type sxPair struct {
	Tokens []lexer.Token
	K      sxValue `"[" @@ ":"`
	V      sxValue `@@ "]"`
}

func (*sxNum) sxValue()   {}
func (*sxSym) sxValue()   {}
func (*sxStr) sxValue()   {}
func (*sxList) sxValue()  {}
func (*sxQuote) sxValue() {}
func (*sxPair) sxValue()  {}

type sxDoc struct {
	Values []sxValue `@@*`
}

var sexprParser = mustBuild[sxDoc](
	participle.Unquote("String"),
	participle.Union[sxValue](&sxNum{}, &sxSym{}, &sxStr{}, &sxList{}, &sxQuote{}, &sxPair{}),
)

func init() {
	f := Register("sexpr", sexprParser, nil,
		`1 (2 3) 4`,
		`(define (f x) (g x "s" #y))`,
		`[a : 1] #(1 2) [(k) : [b : "v"]]`,
		`()`,
		``,
	)
	WithSub[sxList](f, sexprParser, `(1 (2) x)`)
	f.Nesting = func(n int) string {
		return strings.Repeat("(", n) + "1" + strings.Repeat(")", n)
	}
	f.Flat = func(n int) string {
		var sb strings.Builder
		for i := 0; i < n; i++ {
			fmt.Fprintf(&sb, "%d x%d\n", i, i)
		}
		return sb.String()
	}
}

// SexprCalls builds a *fresh* parser for the sexpr grammar and returns calls on it: parsing a document, parsing with
// a parser derived for the inner production sxList (ParserForProduction, created on first use), and String().
func SexprCalls() (parse func(in string) (any, error), sub func(in string) (any, error), ebnf func() string) {
	p, err := participle.Build[sxDoc](
		participle.Unquote("String"),
		participle.Union[sxValue](&sxNum{}, &sxSym{}, &sxStr{}, &sxList{}, &sxQuote{}, &sxPair{}),
	)
	if err != nil {
		return nil, nil, nil // recorded in BuildFailures by the package-level parser of the same grammar
	}
	parse = func(in string) (any, error) {
		v, err := p.ParseString("f", in)
		if v == nil {
			return nil, err
		}
		return v, err
	}
	sub = func(in string) (any, error) {
		sp, err := participle.ParserForProduction[sxList](p)
		if err != nil {
			return nil, err
		}
		v, err := sp.ParseString("sub", in)
		if v == nil {
			return nil, err
		}
		return v, err
	}
	ebnf = func() string { return p.String() }
	return
}
