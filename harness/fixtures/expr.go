package fixtures

import (
	"strings"
)

// Ported from /repo/_examples/expr/main.go (a basic expression parser; display and evaluation dropped).

type exprOperator int

const (
	exprOpMul exprOperator = iota
	exprOpDiv
	exprOpAdd
	exprOpSub
)

var exprOperatorMap = map[string]exprOperator{"+": exprOpAdd, "-": exprOpSub, "*": exprOpMul, "/": exprOpDiv}

func (o *exprOperator) Capture(s []string) error {
	*o = exprOperatorMap[s[0]]
	return nil
}

// E --> T {( "+" | "-" ) T}
// T --> F {( "*" | "/" ) F}
// F --> P ["^" F]
// P --> v | "(" E ")" | "-" T

type exprValue struct {
	Number        *float64        `  @(Float|Int)`
	Variable      *string         `| @Ident`
	Subexpression *exprExpression `| "(" @@ ")"`
}

type exprFactor struct {
	Base     *exprValue `@@`
	Exponent *exprValue `( "^" @@ )?`
}

type exprOpFactor struct {
	Operator exprOperator `@("*" | "/")`
	Factor   *exprFactor  `@@`
}

type exprTerm struct {
	Left  *exprFactor     `@@`
	Right []*exprOpFactor `@@*`
}

type exprOpTerm struct {
	Operator exprOperator `@("+" | "-")`
	Term     *exprTerm    `@@`
}

type exprExpression struct {
	Left  *exprTerm     `@@`
	Right []*exprOpTerm `@@*`
}

var exprParser = mustBuild[exprExpression]()

func init() {
	f := Register("expr", exprParser, nil,
		`1 + 2 / 3 * (1 + 2)`,
		`1`,
		`a * b ^ 2 - (c / 4.5)`,
		`x`,
	)
	f.Nesting = func(n int) string {
		return strings.Repeat("(", n) + "1" + strings.Repeat(")", n)
	}
	f.Flat = func(n int) string {
		if n < 1 {
			n = 1
		}
		return "1" + strings.Repeat(" + 1", n-1)
	}
}
