package fixtures

import (
	"strings"

	"github.com/alecthomas/participle/v2"
	"github.com/alecthomas/participle/v2/lexer"
)

// Ported from /repo/_examples/stateful/main.go (string interpolation with a stateful lexer).

type statefulTerminal struct {
	String *statefulString `  @@`
	Ident  string          `| @Ident`
}

type statefulExpr struct {
	Left  *statefulTerminal `@@`
	Op    string            `( @Oper`
	Right *statefulTerminal `  @@)?`
}

type statefulFragment struct {
	Escaped string        `(  @Escaped`
	Expr    *statefulExpr ` | "${" @@ "}"`
	Text    string        ` | @Char)`
}

type statefulString struct {
	Fragments []*statefulFragment `"\"" @@* "\""`
}

var (
	statefulDef = lexer.MustStateful(lexer.Rules{
		"Root": {
			{Name: `String`, Pattern: `"`, Action: lexer.Push("String")},
		},
		"String": {
			{Name: "Escaped", Pattern: `\\.`, Action: nil},
			{Name: "StringEnd", Pattern: `"`, Action: lexer.Pop()},
			{Name: "Expr", Pattern: `\${`, Action: lexer.Push("Expr")},
			{Name: "Char", Pattern: `\$|[^$"\\]+`, Action: nil},
		},
		"Expr": {
			lexer.Include("Root"),
			{Name: `Whitespace`, Pattern: `\s+`, Action: nil},
			{Name: `Oper`, Pattern: `[-+/*%]`, Action: nil},
			{Name: "Ident", Pattern: `\w+`, Action: nil},
			{Name: "ExprEnd", Pattern: `}`, Action: lexer.Pop()},
		},
	})
	statefulParser = mustBuild[statefulString](participle.Lexer(statefulDef),
		participle.Elide("Whitespace"))
)

func init() {
	f := Register("stateful", statefulParser, []string{"Whitespace"},
		`"hello $(world) ${first + "${last}"}"`,
		`""`,
		`"plain text"`,
		`"escaped \" quote and \\ backslash"`,
		`"${a}"`,
		`"sum: ${ a + b } and $ alone"`,
	)
	f.Nesting = func(n int) string {
		return strings.Repeat(`"${`, n) + `"x"` + strings.Repeat(`}"`, n)
	}
	f.Flat = func(n int) string {
		var sb strings.Builder
		sb.WriteString(`"`)
		for i := 0; i < n; i++ {
			sb.WriteString(`item ${a + b} `)
		}
		sb.WriteString(`"`)
		return sb.String()
	}
}
