package fixtures

import (
	"fmt"
	"strings"

	"github.com/alecthomas/participle/v2"
	"github.com/alecthomas/participle/v2/lexer"
)

// Ported from /repo/_examples/graphql/main.go.

type graphqlFile struct {
	Entries []*graphqlEntry `@@*`
}

type graphqlEntry struct {
	Type   *graphqlType   `  @@`
	Schema *graphqlSchema `| @@`
	Enum   *graphqlEnum   `| @@`
	Scalar string         `| "scalar" @Ident`
}

type graphqlEnum struct {
	Name  string   `"enum" @Ident`
	Cases []string `"{" @Ident* "}"`
}

type graphqlSchema struct {
	Fields []*graphqlField `"schema" "{" @@* "}"`
}

type graphqlType struct {
	Name       string          `"type" @Ident`
	Implements string          `( "implements" @Ident )?`
	Fields     []*graphqlField `"{" @@* "}"`
}

type graphqlField struct {
	Name       string             `@Ident`
	Arguments  []*graphqlArgument `( "(" ( @@ ( "," @@ )* )? ")" )?`
	Type       *graphqlTypeRef    `":" @@`
	Annotation string             `( "@" @Ident )?`
}

type graphqlArgument struct {
	Name    string          `@Ident`
	Type    *graphqlTypeRef `":" @@`
	Default *graphqlValue   `( "=" @@ )?`
}

type graphqlTypeRef struct {
	Array       *graphqlTypeRef `(   "[" @@ "]"`
	Type        string          `  | @Ident )`
	NonNullable bool            `@"!"?`
}

type graphqlValue struct {
	Symbol string `@Ident`
}

var (
	graphqlLexer = lexer.MustSimple([]lexer.SimpleRule{
		{Name: "Comment", Pattern: `(?:#|//)[^\n]*\n?`},
		{Name: "Ident", Pattern: `[a-zA-Z]\w*`},
		{Name: "Number", Pattern: `(?:\d*\.)?\d+`},
		{Name: "Punct", Pattern: `[-[!@#$%^&*()+_={}\|:;"'<,>.?/]|]`},
		{Name: "Whitespace", Pattern: `[ \t\n\r]+`},
	})
	graphqlParser = mustBuild[graphqlFile](
		participle.Lexer(graphqlLexer),
		participle.Elide("Comment", "Whitespace"),
		participle.UseLookahead(2),
	)
)

const graphqlExample = `# A comment.
type Tweet {
    id: ID!
    # The tweet text. No more than 140 characters!
    body: String
    # When the tweet was published
    date: Date
    # Who published the tweet
    Author: User
    # Views, retweets, likes, etc
    Stats: Stat
}

type User {
    id: ID!
    username: String
    first_name: String
    last_name: String
    full_name: String
    name: String @deprecated
    avatar_url: Url
}

type Stat {
    views: Int
    likes: Int
    retweets: Int
    responses: Int
}

type Notification {
    id: ID
    date: Date
    type: String
}

type Meta {
    count: Int
}

scalar Url
scalar Date

type Query {
    Tweet(id: ID!): Tweet
    Tweets(limit: Int, skip: Int, sort_field: String, sort_order: String): [Tweet]
    TweetsMeta: Meta
    User(id: ID!): User
    Notifications(limit: Int): [Notification]
    NotificationsMeta: Meta
}

type Mutation {
    createTweet (
        body: String
    ): Tweet
    deleteTweet(id: ID!): Tweet
    markTweetRead(id: ID!): Boolean
}
`

func init() {
	f := Register("graphql", graphqlParser, []string{"Comment", "Whitespace"},
		graphqlExample,
		`scalar Date`,
		`enum Color { RED GREEN BLUE }`,
		`schema {
    query: Query
    mutation: Mutation
}`,
		`// a slash comment
type Cat implements Animal {
    name(upper: Boolean = false): String!
    friends: [[Animal!]!]
}`,
		``,
	)
	f.Nesting = func(n int) string {
		return "type T {\n    f: " + strings.Repeat("[", n) + "Int" + strings.Repeat("]", n) + "\n}\n"
	}
	f.Flat = func(n int) string {
		var sb strings.Builder
		sb.WriteString("type T {\n")
		for i := 0; i < n; i++ {
			fmt.Fprintf(&sb, "    f%d: Int\n", i)
		}
		sb.WriteString("}\n")
		return sb.String()
	}
}
