package fixtures

import (
	"fmt"
	"strings"
)

// Not ported: a harness-owned grammar of signed numbers, each written as several tokens that one capture joins
// before the numeric conversion (the text/scanner lexer has no signed numbers): -12 , +3.5e -2 , 0x1F .

type signedDoc struct {
	Items []*signedItem `( @@ ( "," @@ )* )?`
}

type signedItem struct {
	I *int64   `(  @( ("-" | "+")? Int )`
	F *float64 ` | "f" @( ("-" | "+")? ( Float | Int ) )`
	U []uint16 ` | "u" @Int+ )`
}

var signedParser = mustBuild[signedDoc]()

func init() {
	f := Register("signednums", signedParser, nil,
		`-12 , +7 , 9`,
		`f -1.5 , f +2 , u 1 2 3`,
		`-9223372036854775808 , f -0.0 , u 65535`,
		``,
	)
	f.Flat = func(n int) string {
		var sb strings.Builder
		for i := 0; i < n; i++ {
			if i > 0 {
				sb.WriteString(" , ")
			}
			fmt.Fprintf(&sb, "-%d , f +%d.5", 1000+i, i)
		}
		return sb.String()
	}
}
