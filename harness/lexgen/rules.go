package lexgen

import (
	"fmt"
	"regexp"
	"strings"
	"unicode/utf8"

	"github.com/alecthomas/participle/v2/lexer"
	"pgregory.net/rapid"
)

// RuleSpec is one rule of a generated definition (own IR: independent of the library's JSON form).
type RuleSpec struct {
	Name    string `json:"name,omitempty"`
	Pattern string `json:"pattern,omitempty"`
	Action  string `json:"action,omitempty"` // "" | push | pop | include | return
	Target  string `json:"target,omitempty"` // push / include target state
}

type StateSpec struct {
	Name  string     `json:"name"`
	Rules []RuleSpec `json:"rules"`
}

// RuleSet is an ordered rule map.
type RuleSet struct {
	States []StateSpec `json:"states"`
}

func (rs *RuleSet) State(name string) *StateSpec {
	for i := range rs.States {
		if rs.States[i].Name == name {
			return &rs.States[i]
		}
	}
	return nil
}

// ToRules converts to the library's rule map.
func (rs *RuleSet) ToRules() lexer.Rules {
	out := lexer.Rules{}
	for _, st := range rs.States {
		out[st.Name] = []lexer.Rule{}
		for _, r := range st.Rules {
			switch r.Action {
			case "include":
				out[st.Name] = append(out[st.Name], lexer.Include(r.Target))
			case "return":
				out[st.Name] = append(out[st.Name], lexer.Return())
			case "push":
				out[st.Name] = append(out[st.Name], lexer.Rule{Name: r.Name, Pattern: r.Pattern, Action: lexer.Push(r.Target)})
			case "pop":
				out[st.Name] = append(out[st.Name], lexer.Rule{Name: r.Name, Pattern: r.Pattern, Action: lexer.Pop()})
			default:
				out[st.Name] = append(out[st.Name], lexer.Rule{Name: r.Name, Pattern: r.Pattern})
			}
		}
	}
	return out
}

func (rs *RuleSet) String() string {
	var sb strings.Builder
	for _, st := range rs.States {
		fmt.Fprintf(&sb, "%s:\n", st.Name)
		for _, r := range st.Rules {
			switch r.Action {
			case "include":
				fmt.Fprintf(&sb, "  Include(%s)\n", r.Target)
			case "return":
				fmt.Fprintf(&sb, "  Return()\n")
			case "push":
				fmt.Fprintf(&sb, "  {%s, `%s`, Push(%s)}\n", r.Name, r.Pattern, r.Target)
			case "pop":
				fmt.Fprintf(&sb, "  {%s, `%s`, Pop()}\n", r.Name, r.Pattern)
			default:
				fmt.Fprintf(&sb, "  {%s, `%s`}\n", r.Name, r.Pattern)
			}
		}
	}
	return sb.String()
}

// HasLowerCase reports whether some rule is silently dropped (lower-case name).
func (rs *RuleSet) HasLowerCase() bool {
	for _, st := range rs.States {
		for _, r := range st.Rules {
			if r.Action != "include" && r.Action != "return" && isLower(r.Name) {
				return true
			}
		}
	}
	return false
}

// RuleOpts steers the rule-set generator.
type RuleOpts struct {
	Pat            PatOpts
	NoBackrefs     bool
	NoNullable     bool // no rule that can match the empty string
	AllowUnderflow bool // Pop / Return may be reachable in the initial state
	NoLowerCase    bool
	MaxStates      int
	MaxRules       int
	IdentNames     bool // identifier-like names only (code generator)
}

var doubleBackslashDigit = regexp.MustCompile(`\\\\[0-9]`)

func renderSafe(p *Pat) string {
	s := p.Render()
	if doubleBackslashDigit.MatchString(s) || strings.HasSuffix(s, `\\`) {
		var fix func(p *Pat)
		fix = func(p *Pat) {
			if p.Kind == "lit" {
				p.Text = strings.ReplaceAll(p.Text, `\`, "/")
			}
			for _, k := range p.Kids {
				fix(k)
			}
		}
		fix(p)
		s = p.Render()
	}
	return s
}

// PatInfo is what the input sampler knows about a rule's pattern.
type PatInfo struct {
	Pat        *Pat // base pattern (nil for include / return)
	BrefN      int  // back-referenced group or -1
	BrefPrefix bool // the back-reference precedes the base pattern
}

// Generated couples a rule set with the pattern ASTs used for input sampling.
type Generated struct {
	RS   *RuleSet
	Pats map[string][]PatInfo // per state, in rule order
}

var stateNames = []string{"Root", "S1", "S2", "S3"}

// GenRuleSet draws a rule set.
func GenRuleSet(t *rapid.T, o RuleOpts) *Generated {
	if o.MaxStates == 0 {
		o.MaxStates = 4
	}
	if o.MaxRules == 0 {
		o.MaxRules = 6
	}
	ns := rapid.IntRange(1, o.MaxStates).Draw(t, "nstates")
	stateNames := stateNames
	if !o.IdentNames && rapid.IntRange(0, 3).Draw(t, "oddstates") == 0 {
		// state names are free text: quotes, backslashes, control characters, non-ASCII
		stateNames = []string{"Root", "S\x1b1", "S é", "S\"q\\"}
		if rapid.IntRange(0, 2).Draw(t, "casetwins") == 0 {
			stateNames = []string{"Root", "expr", "Expr", "EXPR"} // names that differ in capitalisation only
		}
		if rapid.IntRange(0, 2).Draw(t, "emptystate") == 0 {
			stateNames[rapid.IntRange(1, 3).Draw(t, "whichempty")] = "" // a state may be called "" like any other string
		}
	}
	g := &Generated{RS: &RuleSet{}, Pats: map[string][]PatInfo{}}
	type pooled struct {
		name, pattern string
		pat           PatInfo
	}
	var pool []pooled
	nameCount := 0
	for si := 0; si < ns; si++ {
		st := StateSpec{Name: stateNames[si]}
		nr := rapid.IntRange(1, o.MaxRules).Draw(t, "nrules")
		for ri := 0; ri < nr; ri++ {
			k := rapid.IntRange(0, 19).Draw(t, "rk")
			switch {
			case k == 0 && (si > 0 || o.AllowUnderflow):
				st.Rules = append(st.Rules, RuleSpec{Action: "return"})
				g.Pats[st.Name] = append(g.Pats[st.Name], PatInfo{BrefN: -1})
			case k <= 2 && si+1 < ns:
				// include a later state (acyclic), at any index
				inc := stateNames[rapid.IntRange(si+1, ns-1).Draw(t, "inc")]
				st.Rules = append(st.Rules, RuleSpec{Action: "include", Target: inc})
				g.Pats[st.Name] = append(g.Pats[st.Name], PatInfo{BrefN: -1})
			default:
				r := RuleSpec{}
				switch a := rapid.IntRange(0, 9).Draw(t, "act"); {
				case a <= 2 && ns > 1:
					r.Action, r.Target = "push", stateNames[rapid.IntRange(0, ns-1).Draw(t, "push")]
				case a == 3 && (si > 0 || o.AllowUnderflow):
					r.Action = "pop"
				}
				var name, pattern string
				var info PatInfo
				if len(pool) > 0 && rapid.IntRange(0, 5).Draw(t, "share") == 0 {
					p := pool[rapid.IntRange(0, len(pool)-1).Draw(t, "shared")]
					name, pattern, info = p.name, p.pattern, p.pat
				} else {
					pre := "T"
					switch k := rapid.IntRange(0, 14).Draw(t, "nameclass"); {
					case k <= 2 && !o.NoLowerCase:
						pre = "t"
					case k == 3:
						pre = "_r" // neither upper nor lower case: an ordinary (emitted) rule
					case k == 4:
						pre = "9x"
					case k == 5:
						pre = "Ünï"
					case k == 6 && !o.NoLowerCase:
						pre = "élan" // starts with a lower-case letter outside ASCII: elided
					case k == 7 && !o.IdentNames:
						pre = "EOF" // a rule may be called like the end-of-input symbol; its tokens are ordinary tokens
					}
					name = fmt.Sprintf("%s%d", pre, nameCount)
					nameCount++
					if len(pool) > 0 && rapid.IntRange(0, 7).Draw(t, "nametwin") == 0 {
						// the name of an earlier rule with the case of its first letter flipped (`ws` / `Ws`): two rules, two
						// token types, one of them elided
						cand := pool[rapid.IntRange(0, len(pool)-1).Draw(t, "twinof")].name
						if len(cand) > 1 && (cand[0] == 'T' || (cand[0] == 't' && !o.NoLowerCase) || cand[0] == 't') {
							twin := string(cand[0]^0x20) + cand[1:]
							if twin[0] == 't' && o.NoLowerCase {
								twin = ""
							}
							for _, p := range pool {
								if p.name == twin {
									twin = ""
								}
							}
							if twin != "" {
								name, pre = twin, ""
							}
						}
					}
					if pre == "EOF" {
						taken := false // one rule of that exact name per rule set
						for _, p := range pool {
							taken = taken || p.name == "EOF"
						}
						if !taken {
							name = "EOF"
						}
					}
					var pat *Pat
					for tries := 0; ; tries++ {
						if rapid.IntRange(0, 7).Draw(t, "cornerrule") == 0 {
							pat = GenCornerPat(t, o.Pat)
						} else {
							pat = GenPat(t, rapid.IntRange(0, 3).Draw(t, "pd"), o.Pat)
						}
						if o.NoNullable && pat.Nullable() {
							if tries > 5 {
								pat = genAtom(t, o.Pat)
								break
							}
							continue
						}
						break
					}
					if pat.Kind == "group" && !pat.Cap && pat.Kids[0].Kind == "alt" && rapid.Bool().Draw(t, "topalt") {
						pat = pat.Kids[0] // top-level alternation: `a|b` (the rule still has to match as a whole at the offset)
					}
					if r.Action == "push" && !o.NoBackrefs && rapid.IntRange(0, 5).Draw(t, "optgroupfirst") == 0 {
						// an opener whose first group is optional and whose second is not: (a)?(b) -- a closer written \2
						// means the second group whether or not the first took part
						g1 := &Pat{Kind: "group", Cap: true, Kids: []*Pat{genAtom(t, o.Pat)}}
						g2 := &Pat{Kind: "group", Cap: true, Kids: []*Pat{pat}}
						pat = &Pat{Kind: "cat", Kids: []*Pat{{Kind: "rep", Min: 0, Max: 1, Kids: []*Pat{g1}}, g2}}
					} else if r.Action == "push" && rapid.Bool().Draw(t, "capwhole") {
						// the whole match is also group 1: closers written as \1 then repeat the opener
						pat = &Pat{Kind: "group", Cap: true, Kids: []*Pat{pat}}
					}
					pattern = renderSafe(pat)
					if !o.NoNullable && r.Action == "" && rapid.IntRange(0, 39).Draw(t, "emptypat") == 0 {
						// a rule without any pattern (and without an action): legal, matches the empty string where it is reached
						pat = &Pat{Kind: "lit", Text: ""}
						pattern = ""
					}
					info = PatInfo{Pat: pat, BrefN: -1}
					if !o.NoBackrefs && si > 0 && rapid.IntRange(0, 3).Draw(t, "br") == 0 {
						// a back-reference: single backslash + digit, not followed by a digit
						n := rapid.SampledFrom([]int{0, 0, 1, 1, 2, 3}).Draw(t, "brn")
						info.BrefN = n
						if rapid.IntRange(0, 5).Draw(t, "brthendigit") == 0 {
							// the pattern continues with a digit right after the back-reference: \1 then "2", not group 12
							pat = &Pat{Kind: "cat", Kids: []*Pat{{Kind: "lit", Text: rapid.SampledFrom([]string{"1", "2", "0", "10"}).Draw(t, "brdigits")}, pat}}
							pattern = renderSafe(pat)
							info.Pat = pat
						}
						switch k := rapid.IntRange(0, 3).Draw(t, "brpos"); {
						case (k == 0 || startsWithDigit(pattern)) && (!startsWithDigit(pattern) || info.Pat == pat):
							// \N directly followed by a digit of the pattern is still group N followed by that digit
							pattern = fmt.Sprintf(`\%d`, n) + pattern
							info.BrefPrefix = true
						case k == 1:
							pattern = pattern + fmt.Sprintf(`\%d`, n)
						default:
							// the rule is just the back-reference (heredoc-style closer)
							pattern = fmt.Sprintf(`\%d`, n)
							info.Pat = &Pat{Kind: "lit", Text: ""}
						}
					}
					pool = append(pool, pooled{name, pattern, info})
				}
				r.Name, r.Pattern = name, pattern
				st.Rules = append(st.Rules, r)
				g.Pats[st.Name] = append(g.Pats[st.Name], info)
			}
		}
		g.RS.States = append(g.RS.States, st)
	}
	return g
}

func startsWithDigit(s string) bool { return s != "" && s[0] >= '0' && s[0] <= '9' }

var noise = []string{"a", "b", "c", "ab", "é", "日", ".", "+", "(", ")", " ", "\n", "\r\n", "0", "1", "-", `"`, "x", "\xff", "A", "K", "k", "\u212a", "\u017f", "ß", "\t", "*/", "}", "\\", "\ufeff", "\U0001F600", "\uffff"}

type flatRule struct {
	spec RuleSpec
	info PatInfo
}

func (g *Generated) flat(state string, out *[]flatRule, depth int) {
	st := g.RS.State(state)
	if st == nil || depth > 8 {
		return
	}
	for i, r := range st.Rules {
		if r.Action == "include" {
			g.flat(r.Target, out, depth+1)
			continue
		}
		*out = append(*out, flatRule{r, g.Pats[state][i]})
	}
}

// GenInput draws an input. Most inputs are walks through the state machine: a rule of the current
// state is picked, a string is sampled from its pattern (a back-reference repeats the text that
// entered the state) and its action is followed, so lexing gets deep; the rest is noise,
// repeats and truncation (inputs that end in the middle of a pattern).
func (g *Generated) GenInput(t *rapid.T) string {
	type fr struct{ state, piece string }
	stack := []fr{{"Root", ""}}
	n := rapid.IntRange(0, 13).Draw(t, "ilen") // rapid favours the lower bound: map it to a mid size, keep empty rare
	if n == 0 {
		n = 4
	} else if n == 13 {
		n = 0
	}
	var sb strings.Builder
	var pieces []string
	for i := 0; i < n; i++ {
		k := rapid.IntRange(0, 11).Draw(t, "ik")
		if k == 10 && len(pieces) > 0 {
			sb.WriteString(pieces[rapid.IntRange(0, len(pieces)-1).Draw(t, "irep")])
			continue
		}
		if k == 11 {
			sb.WriteString(rapid.SampledFrom(noise).Draw(t, "inoise"))
			continue
		}
		top := stack[len(stack)-1]
		var rules []flatRule
		g.flat(top.state, &rules, 0)
		if len(rules) == 0 {
			sb.WriteString(rapid.SampledFrom(noise).Draw(t, "inoise2"))
			continue
		}
		fr0 := rules[rapid.IntRange(0, len(rules)-1).Draw(t, "irule")]
		if fr0.spec.Action == "return" {
			if len(stack) > 1 {
				stack = stack[:len(stack)-1]
			}
			continue
		}
		s := ""
		if fr0.info.Pat != nil {
			s = fr0.info.Pat.SampleString(t)
		}
		if fr0.info.BrefN >= 0 {
			if fr0.info.BrefPrefix {
				s = top.piece + s
			} else {
				s = s + top.piece
			}
		}
		sb.WriteString(s)
		pieces = append(pieces, s)
		switch fr0.spec.Action {
		case "push":
			if len(stack) < 12 {
				stack = append(stack, fr{fr0.spec.Target, s})
			}
		case "pop":
			if len(stack) > 1 {
				stack = stack[:len(stack)-1]
			}
		}
	}
	s := sb.String()
	if rapid.IntRange(0, 15).Draw(t, "bom") == 0 {
		s = "\ufeff" + s // a byte-order mark is ordinary input for a user-defined lexer
	}
	if len(s) > 0 {
		switch rapid.IntRange(0, 9).Draw(t, "trunc") {
		case 0:
			s = s[:rapid.IntRange(0, len(s)-1).Draw(t, "truncat")]
		case 2:
			// the input ends right after a character whose case-folded partners are shorter in UTF-8
			if i := strings.LastIndexAny(s, "\u212a\u017f"); i >= 0 {
				_, n := utf8.DecodeRuneInString(s[i:])
				s = s[:i+n]
			}
		case 1:
			// the input ends inside the last piece, on a character boundary: the end of input is met in the
			// middle of a pattern
			if len(pieces) > 0 {
				if last := pieces[len(pieces)-1]; strings.HasSuffix(s, last) {
					if rs := []rune(last); len(rs) > 1 {
						s = s[:len(s)-len(last)] + string(rs[:rapid.IntRange(1, len(rs)-1).Draw(t, "truncrunes")])
					}
				}
			}
		}
	}
	return s
}

// GenBackrefFamily draws a definition from a hand-shaped family that stresses back-reference
// expansion: openers with two capture groups, closers that refer to both groups (adjacent or
// separated), several entries into the same state per input with group texts drawn from a small
// set whose concatenations collide ("ab"+"c" vs "a"+"bc"), so a compiled-pattern cache keyed too
// coarsely gives the wrong closer.
func GenBackrefFamily(t *rapid.T) (*RuleSet, func(t *rapid.T) string) {
	sep := rapid.SampledFrom([]string{"/", "", "-", "\\|"}).Draw(t, "brsep")
	closer := `\1` + sep + `\2`
	if rapid.IntRange(0, 3).Draw(t, "brswap") == 0 {
		closer = `\2` + sep + `\1`
	}
	open := rapid.SampledFrom([]string{`\[(\w+)\|(\w*)\]`, `<(\w*):(\w+)>`, `\[(\w+)\|(\w*)\]`}).Draw(t, "bropen")
	rs := &RuleSet{States: []StateSpec{
		{Name: "Root", Rules: []RuleSpec{{Name: "Open", Pattern: open, Action: "push", Target: "Body"}, {Name: "Word", Pattern: `\w+`}, {Name: "ws", Pattern: `\s+`}, {Name: "Punct", Pattern: `[^\w\s]`}}},
		{Name: "Body", Rules: []RuleSpec{{Name: "Close", Pattern: closer, Action: "pop"}, {Name: "Nested", Pattern: open, Action: "push", Target: "Body"}, {Name: "Char", Pattern: `(?s:.)`}}},
	}}
	parts := []string{"a", "ab", "b", "bc", "c", "abc", "x", "xy", "y", "yz", "z"}
	if rapid.IntRange(0, 2).Draw(t, "brmeta") == 0 {
		// group texts full of regexp syntax (a back-reference matches them literally), incl. the \Q..\E quoting markers
		open = `\[([^|\]]+)\|([^|\]]*)\]`
		rs.States[0].Rules[0].Pattern = open
		rs.States[1].Rules[1].Pattern = open
		parts = []string{`\E`, `a\E`, `\Q`, `.`, `\E.\Q`, "a", "+", "(", `\`, "a*", `\d`}
	}
	if rapid.IntRange(0, 3).Draw(t, "brtwoopen") == 0 {
		// two openers that cut the same text differently (<abc> = a|bc from Root, ab|c when nested) and lead to the same
		// closer rule: the whole match and the concatenation of the groups agree, only the cut differs (C09-r12m2)
		rs.States[0].Rules[0].Pattern = `<(\w)(\w+)>`
		rs.States[1].Rules[1].Pattern = `<(\w+)(\w)>`
		words := []string{"ab", "abc", "bc", "xy", "xyz", "abcd"}
		plainSep := strings.ReplaceAll(sep, "\\", "")
		closeFor := func(w string, rootCut bool) string {
			c1, c2 := w[:1], w[1:]
			if !rootCut {
				c1, c2 = w[:len(w)-1], w[len(w)-1:]
			}
			if strings.HasPrefix(closer, `\2`) {
				return c2 + plainSep + c1
			}
			return c1 + plainSep + c2
		}
		return rs, func(t *rapid.T) string {
			var sb strings.Builder
			for i, n := 0, rapid.IntRange(1, 3).Draw(t, "brn"); i < n; i++ {
				w := rapid.SampledFrom(words).Draw(t, "w")
				sb.WriteString("<" + w + ">" + rapid.SampledFrom([]string{"", "q", " "}).Draw(t, "brbody"))
				if rapid.Bool().Draw(t, "nested") {
					w2 := w
					if rapid.IntRange(0, 2).Draw(t, "otherword") == 0 {
						w2 = rapid.SampledFrom(words).Draw(t, "w2")
					}
					sb.WriteString("<" + w2 + ">" + rapid.SampledFrom([]string{"", "q", " "}).Draw(t, "brbody2"))
					// usually the closer of the nested cut, sometimes the one of the other cut
					sb.WriteString(closeFor(w2, rapid.IntRange(0, 3).Draw(t, "wrongcut2") == 0) + " ")
				}
				sb.WriteString(closeFor(w, rapid.IntRange(0, 3).Draw(t, "wrongcut") != 0))
				sb.WriteString(rapid.SampledFrom([]string{" ", "", " w "}).Draw(t, "brtail"))
			}
			return sb.String()
		}
	}
	input := func(t *rapid.T) string {
		var sb strings.Builder
		n := rapid.IntRange(1, 4).Draw(t, "brn")
		for i := 0; i < n; i++ {
			g1 := rapid.SampledFrom(parts).Draw(t, "g1")
			g2 := rapid.SampledFrom(parts).Draw(t, "g2")
			if strings.HasPrefix(open, "<") {
				sb.WriteString("<" + g1 + ":" + g2 + ">")
			} else {
				sb.WriteString("[" + g1 + "|" + g2 + "]")
			}
			sb.WriteString(rapid.SampledFrom([]string{"", "q", " ", "q q"}).Draw(t, "brbody"))
			// the closer: usually the right one, sometimes one that only matches a colliding split
			c1, c2 := g1, g2
			if rapid.IntRange(0, 2).Draw(t, "brwrong") == 0 {
				whole := g1 + g2
				if len(whole) >= 2 {
					k := rapid.IntRange(1, len(whole)-1).Draw(t, "brsplit")
					c1, c2 = whole[:k], whole[k:]
				}
			}
			plainSep := strings.ReplaceAll(sep, "\\", "")
			if strings.HasPrefix(closer, `\2`) {
				sb.WriteString(c2 + plainSep + c1)
			} else {
				sb.WriteString(c1 + plainSep + c2)
			}
			sb.WriteString(rapid.SampledFrom([]string{" ", "", " w "}).Draw(t, "brtail"))
		}
		return sb.String()
	}
	return rs, input
}
