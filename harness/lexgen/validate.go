package lexgen

import (
	"fmt"

	"github.com/alecthomas/participle/v2/lexer"
)

// ValidateTokens checks C04's laws from the input text alone. complete: the definition drops no
// input silently (no lower-case rules, no skipped whitespace), so the values must concatenate to
// the input.
func ValidateTokens(in, filename string, toks []lexer.Token, complete bool) []string {
	var errs []string
	add := func(format string, args ...any) { errs = append(errs, fmt.Sprintf(format, args...)) }
	if len(toks) == 0 {
		return []string{"no tokens at all (not even EOF)"}
	}
	prevEnd := 0
	for i, tk := range toks {
		last := i == len(toks)-1
		if tk.EOF() != last {
			if last {
				add("last token %#v is not EOF", tk)
			} else {
				add("EOF token at index %d of %d (must be single and last)", i, len(toks))
			}
			break
		}
		off := tk.Pos.Offset
		if off < 0 || off > len(in) {
			add("token %d %#v: offset %d outside the input (len %d)", i, tk, off, len(in))
			break
		}
		if tk.Pos.Filename != filename {
			add("token %d: filename %q, want %q", i, tk.Pos.Filename, filename)
		}
		l, c := LineCol(in, off)
		if tk.Pos.Line != l || tk.Pos.Column != c {
			add("token %d %q at offset %d: position %d:%d, want %d:%d", i, tk.Value, off, tk.Pos.Line, tk.Pos.Column, l, c)
		}
		if last {
			if off != len(in) {
				add("EOF at offset %d, want %d (end of input)", off, len(in))
			}
			if tk.Value != "" {
				add("EOF token has value %q", tk.Value)
			}
			if complete && prevEnd != len(in) {
				add("token values do not concatenate to the input: covered %d of %d bytes", prevEnd, len(in))
			}
			break
		}
		if off < prevEnd {
			add("token %d %q at offset %d overlaps the previous token (ended at %d)", i, tk.Value, off, prevEnd)
			break
		}
		if tk.Value == "" {
			add("token %d at offset %d is empty", i, off)
		}
		if off+len(tk.Value) > len(in) || in[off:off+len(tk.Value)] != tk.Value {
			add("token %d: value %q is not the input text at offset %d", i, tk.Value, off)
			break
		}
		if complete && off != prevEnd {
			add("gap: bytes %d..%d are not covered by any token although nothing may be dropped", prevEnd, off)
		}
		prevEnd = off + len(tk.Value)
	}
	return errs
}
