package lexgen

import (
	"regexp"
	"strings"
	"unicode"
	"unicode/utf8"
)

// RTok is a token of the reference lexer.
type RTok struct {
	Name  string
	Value string
	Off   int
	Line  int
	Col   int
}

// RefResult is the outcome of the reference lexer.
type RefResult struct {
	Toks    []RTok // ends with EOF when lexing succeeded
	ErrOff  int    // -1: no error
	ErrLine int
	ErrCol  int
	ErrWhy  string

	// out-of-statement situations (counted and skipped by C03, owned by C07)
	Underflow   bool // Pop/Return with nothing to return to
	NonPart     bool // a back-reference named a group of the entering rule that did not take part in its match
	NonPartSeen int  // entering rules with a group that did not take part in the match
	Inexpress   bool // back-referenced text is not expressible as a regexp (invalid UTF-8)
	StatesSeen  int
	MultiCand   int // offsets at which >= 2 rules matched
	ShortFirst  int // ... and the selected (first) match was shorter than a later candidate's
	Backrefs    int // back-references expanded
	BackrefMeta int // ... whose text contained regex metacharacters
	Includes    int // rules reached through an include
	Returns     int
	Pushes      int
	Pops        int
	MaxDepth    int
	Elided      int // matches of lower-case rules
	AnchorAfter int // a rule containing ^ or \b was tried at an offset > 0 right after a word character
}

type frame struct {
	state  string
	groups []string
	absent []bool // groups of the entering rule that did not take part in its match
}

var backrefRE = regexp.MustCompile(`\\(\d)`)
var anchorish = regexp.MustCompile(`\^|\\b|\\B|\\A`)

// LineCol computes the position of a byte offset from the input alone.
func LineCol(in string, off int) (int, int) {
	line := 1 + strings.Count(in[:off], "\n")
	last := strings.LastIndex(in[:off], "\n")
	return line, 1 + utf8.RuneCountInString(in[last+1:off])
}

// isLower: "rules whose names start with a lower-case letter" (any script).
func isLower(name string) bool {
	r, _ := utf8.DecodeRuneInString(name)
	return name != "" && unicode.IsLower(r)
}

// visit walks the rules of state in declared order with included states spliced in place.
func (rs *RuleSet) visit(state string, viaInclude bool, f func(r RuleSpec, viaInclude bool) bool) bool {
	st := rs.State(state)
	if st == nil {
		return true
	}
	for _, r := range st.Rules {
		if r.Action == "include" {
			if !rs.visit(r.Target, true, f) {
				return false
			}
			continue
		}
		if !f(r, viaInclude) {
			return false
		}
	}
	return true
}

var reCache = map[string]*regexp.Regexp{}

// Compile compiles (and caches) a pattern.
func Compile(p string) (*regexp.Regexp, error) { return compile(p) }

func compile(p string) (*regexp.Regexp, error) {
	if re, ok := reCache[p]; ok {
		return re, nil
	}
	re, err := regexp.Compile(p)
	if err != nil {
		return nil, err
	}
	if len(reCache) > 5000 {
		reCache = map[string]*regexp.Regexp{}
	}
	reCache[p] = re
	return re, nil
}

func isWordByte(b byte) bool {
	return b == '_' || b >= 'a' && b <= 'z' || b >= 'A' && b <= 'Z' || b >= '0' && b <= '9'
}

// RefLex is the reference stateful lexer, written from the documented behaviour:
// first matching rule of the current state in declared order (includes spliced in place), each
// pattern matched against the remaining input as a text of its own; Push/Pop/Return as a stack;
// \N replaced by the quoted N-th group of the rule that entered the state; lower-case rules
// consume silently; error when nothing matches, the selected rule matched nothing, or a
// back-reference names a missing group.
func RefLex(rs *RuleSet, in string) RefResult { return RefLexTried(rs, in, nil) }

// RefLexTried is RefLex with a hook that is called for every (offset, rule) pair the lexer tries,
// with the remaining input and the pattern after back-reference expansion.
func RefLexTried(rs *RuleSet, in string, tried func(off int, r RuleSpec, pattern, rest string)) RefResult {
	res := RefResult{ErrOff: -1}
	stack := []frame{{state: "Root"}}
	off := 0
	fail := func(why string) RefResult {
		res.ErrOff = off
		res.ErrLine, res.ErrCol = LineCol(in, off)
		res.ErrWhy = why
		return res
	}
	seen := map[string]bool{"Root": true}
	res.MaxDepth = 1
	for off < len(in) {
		top := stack[len(stack)-1]
		rest := in[off:]
		var sel *RuleSpec
		var m []int
		returned, badRef := false, false
		cands := 0
		selLen, longest := 0, 0
		viaInc := false
		rs.visit(top.state, false, func(r RuleSpec, inc bool) bool {
			if r.Action == "return" {
				if sel == nil {
					returned = true
				}
				return false
			}
			pat := r.Pattern
			if backrefRE.MatchString(pat) {
				ok := true
				pat = backrefRE.ReplaceAllStringFunc(pat, func(s string) string {
					n := int(s[1] - '0')
					if n >= len(top.groups) {
						ok = false
						return s
					}
					if n < len(top.absent) && top.absent[n] && sel == nil {
						// the entering rule has the group but it did not take part in the match: whether that is
						// "a group the entering rule did not capture" is not settled by the statement
						res.NonPart = true
					}
					if sel == nil {
						res.Backrefs++
						if regexp.QuoteMeta(top.groups[n]) != top.groups[n] {
							res.BackrefMeta++
						}
					}
					return regexp.QuoteMeta(top.groups[n])
				})
				if !ok {
					if sel == nil {
						badRef = true
					}
					return false
				}
			}
			re, err := compile(pat)
			if err != nil {
				if sel == nil {
					res.Inexpress = true
				}
				return false
			}
			if sel == nil && off > 0 && isWordByte(in[off-1]) && anchorish.MatchString(pat) {
				res.AnchorAfter++
			}
			if sel == nil && tried != nil {
				tried(off, r, pat, rest)
			}
			loc := re.FindStringSubmatchIndex(rest)
			if loc != nil && loc[0] == 0 {
				cands++
				if loc[1] > longest {
					longest = loc[1]
				}
				if sel == nil {
					rr := r
					sel = &rr
					m = loc
					selLen = loc[1]
					viaInc = inc
				}
			}
			return true
		})
		if res.Inexpress {
			return res
		}
		if cands > 1 {
			res.MultiCand++
			if longest > selLen {
				res.ShortFirst++
			}
		}
		if sel == nil && badRef {
			return fail("back-reference to a group the entering rule did not capture")
		}
		if sel == nil && returned {
			if len(stack) == 1 {
				res.Underflow = true
				return res
			}
			stack = stack[:len(stack)-1]
			res.Returns++
			continue
		}
		if sel == nil {
			return fail("no rule matches")
		}
		if viaInc {
			res.Includes++
		}
		if m[1] == 0 {
			return fail("selected rule matched the empty string")
		}
		switch sel.Action {
		case "push":
			groups := make([]string, 0, len(m)/2)
			absent := make([]bool, 0, len(m)/2)
			for i := 0; i < len(m); i += 2 {
				if m[i] < 0 {
					groups = append(groups, "")
					absent = append(absent, true)
					res.NonPartSeen++
				} else {
					groups = append(groups, rest[m[i]:m[i+1]])
					absent = append(absent, false)
				}
			}
			stack = append(stack, frame{state: sel.Target, groups: groups, absent: absent})
			seen[sel.Target] = true
			res.Pushes++
			if len(stack) > res.MaxDepth {
				res.MaxDepth = len(stack)
			}
		case "pop":
			if len(stack) == 1 {
				res.Underflow = true
				return res
			}
			stack = stack[:len(stack)-1]
			res.Pops++
		}
		if isLower(sel.Name) {
			res.Elided++
		} else {
			l, c := LineCol(in, off)
			res.Toks = append(res.Toks, RTok{sel.Name, rest[:m[1]], off, l, c})
		}
		off += m[1]
	}
	res.StatesSeen = len(seen)
	l, c := LineCol(in, off)
	res.Toks = append(res.Toks, RTok{"EOF", "", off, l, c})
	return res
}
