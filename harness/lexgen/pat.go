// Package lexgen is engine E2: generated stateful-lexer rule sets (with a small regexp-AST
// generator), a reference lexer written from the documentation, a possessive matcher (the
// executable form of the code generator's documented limitation) and a token/position validator.
package lexgen

import (
	"fmt"
	"strings"

	"pgregory.net/rapid"
)

// Pat is a node of a generated regular expression.
type Pat struct {
	Kind   string // lit | class | anchor | cat | alt | rep | group | icase
	Text   string // lit: literal text (unescaped); class/anchor: pattern text
	Sample []string
	Kids   []*Pat
	Min    int
	Max    int // -1 = unbounded
	Lazy   bool
	Cap    bool // group: capturing
}

type classSpec struct {
	text   string
	sample []string
}

var classes = []classSpec{
	{"[a-c]", []string{"a", "b", "c"}},
	{"[^a]", []string{"b", "x", "é", " ", "\n", "1"}},
	{`\w`, []string{"a", "Z", "0", "_"}},
	{`\s`, []string{" ", "\n", "\t", "\r"}},
	{`\d`, []string{"0", "7"}},
	{`[[:alpha:]]`, []string{"a", "Q"}},
	{`[0-9a-f]`, []string{"0", "f", "a"}},
	{`[^\n]`, []string{"a", " ", "é", "\r"}},
	{`[é日]`, []string{"é", "日"}},
	{`.`, []string{"a", "é", " ", "\xff", "\r"}},
	{`(?s:.)`, []string{"a", "\n", "日"}},
	{`\S`, []string{"a", "é", "-"}},
	{`\W`, []string{" ", "-", "é", "\n"}},
	// the two cases of one letter (the regexp parser turns these into case-folding literals on its own)
	{`[xX]`, []string{"x", "X"}},
	{`[eE]`, []string{"e", "E"}},
	{`[kK]`, []string{"k", "K", "\u212a"}},
	// many ranges (a negated class over scattered characters ends in a range that crosses U+FFFF) and astral input
	{`[^\s"'(),;\[\]{}]`, []string{"a", "é", "\U0001F600", "-", "\U0001F64F", "\uffff", "\U00010000"}},
	{`[a-cx-z0-37-9_A-CX-Z!-#\x{1F600}-\x{1F64F}é]`, []string{"b", "y", "8", "_", "\U0001F600", "é", "#"}},
	{`[^\x00-\x{FFFF}]`, []string{"\U0001F600", "\U00010000", "\U0010FFFF"}},
	// Unicode categories: ranges that contain U+FFFD and whose ends take the same number of bytes (what an
	// invalid byte decodes to lies inside them)
	{`\PL`, []string{"-", "1", "\ufffd", "\xff", "\xe2\x82", "☺"}},
	{`\p{So}`, []string{"☺", "\ufffd", "©", "\xf0\x9f"}},
	{`[^\pL\pN\s]`, []string{"-", "\ufffd", "\xc0", "☺", "!"}},
	{`\pL`, []string{"a", "é", "日", "\u212a", "\u017f"}},
}

var literals = []string{"a", "b", "\\u003c", "c", "ab", "\\u0026amp", "abc", "x", "é", "日本", "ß", ".", "+", "(", ")", "*", "[", " ", "\n", "\r\n", "\"", "'", "<", "&", ">", "-", "0", "1", "12", "=", "\\", "K", "k", "s", "ks", "key", "Sk", "#", "/*", "*/", "${", "}", "`", "\x1b[", "\x7f", "\v", "\a", "\U000E0001"}

var anchors = []string{`^`, `$`, `\b`, `\B`, `(?m:^)`, `(?m:$)`, `\A`, `\z`}

// PatOpts restricts the generated patterns.
type PatOpts struct {
	NoLazy    bool // no non-greedy operators
	NoAnchors bool
	NoICase   bool
	ASCIIOnly bool
}

func quoteMeta(s string) string {
	var sb strings.Builder
	for _, r := range s {
		switch r {
		case '\n':
			sb.WriteString(`\n`)
		case '\r':
			sb.WriteString(`\r`)
		case '\t':
			sb.WriteString(`\t`)
		case '\\', '.', '+', '*', '?', '(', ')', '|', '[', ']', '{', '}', '^', '$':
			sb.WriteByte('\\')
			sb.WriteRune(r)
		default:
			sb.WriteRune(r)
		}
	}
	return sb.String()
}

// Render writes the pattern text.
func (p *Pat) Render() string {
	switch p.Kind {
	case "lit":
		return quoteMeta(p.Text)
	case "class", "anchor":
		return p.Text
	case "cat":
		var sb strings.Builder
		for _, k := range p.Kids {
			if k.Kind == "alt" {
				sb.WriteString("(?:" + k.Render() + ")")
			} else {
				sb.WriteString(k.Render())
			}
		}
		return sb.String()
	case "alt":
		parts := make([]string, len(p.Kids))
		for i, k := range p.Kids {
			parts[i] = k.Render()
		}
		return strings.Join(parts, "|")
	case "rep":
		body := p.Kids[0].Render()
		k := p.Kids[0]
		single := k.Kind == "class" || (k.Kind == "lit" && len([]rune(k.Text)) == 1) || k.Kind == "group"
		if !single {
			body = "(?:" + body + ")"
		}
		var op string
		switch {
		case p.Min == 0 && p.Max == -1:
			op = "*"
		case p.Min == 1 && p.Max == -1:
			op = "+"
		case p.Min == 0 && p.Max == 1:
			op = "?"
		case p.Max == -1:
			op = fmt.Sprintf("{%d,}", p.Min)
		case p.Min == p.Max:
			op = fmt.Sprintf("{%d}", p.Min)
		default:
			op = fmt.Sprintf("{%d,%d}", p.Min, p.Max)
		}
		if p.Lazy {
			op += "?"
		}
		return body + op
	case "group":
		if p.Cap {
			return "(" + p.Kids[0].Render() + ")"
		}
		return "(?:" + p.Kids[0].Render() + ")"
	case "icase":
		return "(?i:" + p.Kids[0].Render() + ")"
	}
	panic("lexgen: bad pattern kind " + p.Kind)
}

// Nullable: can the pattern match the empty string?
func (p *Pat) Nullable() bool {
	switch p.Kind {
	case "lit":
		return p.Text == ""
	case "class":
		return false
	case "anchor":
		return true
	case "cat":
		for _, k := range p.Kids {
			if !k.Nullable() {
				return false
			}
		}
		return true
	case "alt":
		for _, k := range p.Kids {
			if k.Nullable() {
				return true
			}
		}
		return false
	case "rep":
		return p.Min == 0 || p.Kids[0].Nullable()
	case "group", "icase":
		return p.Kids[0].Nullable()
	}
	return false
}

// SampleString draws a string the pattern is likely to match.
func (p *Pat) SampleString(t *rapid.T) string {
	switch p.Kind {
	case "lit":
		return p.Text
	case "class":
		return rapid.SampledFrom(p.Sample).Draw(t, "cs")
	case "anchor":
		return ""
	case "cat":
		var sb strings.Builder
		for _, k := range p.Kids {
			sb.WriteString(k.SampleString(t))
		}
		return sb.String()
	case "alt":
		return p.Kids[rapid.IntRange(0, len(p.Kids)-1).Draw(t, "sa")].SampleString(t)
	case "rep":
		max := p.Max
		if max < 0 || max > p.Min+3 {
			max = p.Min + 3
		}
		n := rapid.IntRange(p.Min, max).Draw(t, "sr")
		var sb strings.Builder
		for i := 0; i < n; i++ {
			sb.WriteString(p.Kids[0].SampleString(t))
		}
		return sb.String()
	case "group":
		return p.Kids[0].SampleString(t)
	case "icase":
		s := p.Kids[0].SampleString(t)
		f := rapid.IntRange(0, 3).Draw(t, "fold")
		if f >= 2 && strings.ContainsAny(s, "ksKS") && rapid.Bool().Draw(t, "foldmore") {
			f = 1
		}
		switch f {
		case 0:
			return strings.ToUpper(s)
		case 1:
			// characters whose simple case folding changes the UTF-8 length: k/K/KELVIN SIGN, s/S/LONG S
			return strings.NewReplacer("k", "\u212a", "K", "\u212a", "s", "\u017f", "S", "\u017f").Replace(s)
		}
		return s
	}
	return ""
}

func genAtom(t *rapid.T, o PatOpts) *Pat {
	if rapid.IntRange(0, 2).Draw(t, "atomk") == 0 {
		c := rapid.SampledFrom(classes).Draw(t, "class")
		if o.ASCIIOnly && strings.ContainsAny(c.text, "é日") {
			c = classes[0]
		}
		return &Pat{Kind: "class", Text: c.text, Sample: c.sample}
	}
	l := rapid.SampledFrom(literals).Draw(t, "lit")
	if o.ASCIIOnly {
		for _, r := range l {
			if r > 127 {
				l = "a"
			}
		}
	}
	return &Pat{Kind: "lit", Text: l}
}

// GenPat draws a pattern AST.
func GenPat(t *rapid.T, depth int, o PatOpts) *Pat {
	if depth <= 0 {
		return genAtom(t, o)
	}
	switch rapid.IntRange(0, 12).Draw(t, "pk") {
	case 12:
		// corner shapes: an empty alternative, a repetition whose body can match nothing
		return genCorner(t, GenPat(t, depth-1, o), o, rapid.IntRange(0, 15).Draw(t, "corner"))
	case 0, 1, 2:
		n := rapid.IntRange(2, 3).Draw(t, "cn")
		kids := make([]*Pat, n)
		for i := range kids {
			kids[i] = GenPat(t, depth-1, o)
		}
		return &Pat{Kind: "cat", Kids: kids}
	case 3, 4:
		n := rapid.IntRange(2, 3).Draw(t, "an")
		kids := make([]*Pat, n)
		for i := range kids {
			kids[i] = GenPat(t, depth-1, o)
		}
		return &Pat{Kind: "group", Kids: []*Pat{{Kind: "alt", Kids: kids}}, Cap: rapid.IntRange(0, 3).Draw(t, "altcap") == 0}
	case 5, 6:
		type rng struct{ min, max int }
		r := rapid.SampledFrom([]rng{{0, -1}, {1, -1}, {0, 1}, {1, 2}, {2, 2}, {0, 2}, {2, -1}}).Draw(t, "rep")
		body := GenPat(t, depth-1, o)
		if body.Kind == "rep" || body.Kind == "anchor" {
			body = &Pat{Kind: "group", Kids: []*Pat{body}}
		}
		lazy := !o.NoLazy && rapid.IntRange(0, 7).Draw(t, "lazy") == 0
		return &Pat{Kind: "rep", Kids: []*Pat{body}, Min: r.min, Max: r.max, Lazy: lazy}
	case 7:
		return &Pat{Kind: "group", Kids: []*Pat{GenPat(t, depth-1, o)}, Cap: true}
	case 8:
		if o.NoAnchors {
			return genAtom(t, o)
		}
		a := &Pat{Kind: "anchor", Text: rapid.SampledFrom(anchors).Draw(t, "anchor")}
		body := GenPat(t, depth-1, o)
		if rapid.Bool().Draw(t, "anchorFirst") {
			return &Pat{Kind: "cat", Kids: []*Pat{a, body}}
		}
		return &Pat{Kind: "cat", Kids: []*Pat{body, a}}
	case 9:
		if o.NoICase {
			return genAtom(t, o)
		}
		return &Pat{Kind: "icase", Kids: []*Pat{GenPat(t, depth-1, o)}}
	default:
		return genAtom(t, o)
	}
}

// GenCornerPat draws one of the corner shapes with equal probability (inside GenPat they are rare).
func GenCornerPat(t *rapid.T, o PatOpts) *Pat {
	which := 0
	for i := 0; i < 5; i++ {
		which *= 2
		if rapid.Bool().Draw(t, "cornerbit") {
			which++
		}
	}
	if which >= 20 {
		which %= 16
	} else if which >= 18 {
		which -= 2
	}
	return genCorner(t, GenPat(t, rapid.IntRange(0, 1).Draw(t, "cornerdepth"), o), o, which)
}

// genCorner builds corner shape `which` around the pattern x.
func genCorner(t *rapid.T, x *Pat, o PatOpts, which int) *Pat {
	if o.NoICase && (which == 8 || which == 9 || which >= 14) {
		which = 10
	}
	switch which {
	case 16, 17:
		// a word that begins (and ends) at a word boundary: \b[a-c]+ , \b\w+\b -- the assertion is evaluated at the
		// first and at the last byte of the input like anywhere else
		if o.NoAnchors {
			return x
		}
		cls := rapid.SampledFrom([]string{`[a-c]`, `\w`, `\d`, `[0-9a-f]`}).Draw(t, "wbclass")
		var spec classSpec
		for _, c := range classes {
			if c.text == cls {
				spec = c
			}
		}
		word := &Pat{Kind: "rep", Min: 1, Max: -1, Kids: []*Pat{{Kind: "class", Text: spec.text, Sample: spec.sample}}}
		kids := []*Pat{{Kind: "anchor", Text: `\b`}, word}
		if which == 17 {
			kids = append(kids, &Pat{Kind: "anchor", Text: `\b`})
		}
		return &Pat{Kind: "cat", Kids: kids}
	case 12, 13:
		// alternatives that share their first byte with an earlier alternative that is not their neighbour
		set := rapid.SampledFrom([][]string{{"begin", "end", "break"}, {"<=", ">=", "<>", "=="}, {"ab", "c", "ac"}, {"é1", "x", "é2"}, {"if", "else", "in"}}).Draw(t, "kwset")
		alt := &Pat{Kind: "alt"}
		for _, w := range set {
			alt.Kids = append(alt.Kids, &Pat{Kind: "lit", Text: w})
		}
		g := &Pat{Kind: "group", Cap: rapid.IntRange(0, 3).Draw(t, "altcap") == 0, Kids: []*Pat{alt}}
		if rapid.Bool().Draw(t, "kwalone") {
			return g
		}
		return &Pat{Kind: "cat", Kids: []*Pat{g, x}}
	case 14, 15:
		// the same letters once as written and once case-insensitively, in one pattern: NULL|(?i:null)able
		w := rapid.SampledFrom([]string{"NULL", "0X", "K", "AB", "Sk"}).Draw(t, "samelit")
		plain := &Pat{Kind: "lit", Text: w}
		folded := &Pat{Kind: "cat", Kids: []*Pat{{Kind: "icase", Kids: []*Pat{{Kind: "lit", Text: strings.ToLower(w)}}}, {Kind: "lit", Text: rapid.SampledFrom([]string{"able", "1", "é"}).Draw(t, "sametail")}}}
		kids := []*Pat{plain, folded}
		if rapid.Bool().Draw(t, "sameorder") {
			kids = []*Pat{folded, plain}
		}
		return &Pat{Kind: "group", Kids: []*Pat{{Kind: "alt", Kids: kids}}}
	case 10, 11:
		// alternatives of which an earlier one is a prefix of a later one (leftmost-first: the shorter one wins;
		// the regexp parser factors them into prefix(?:|rest))
		pair := rapid.SampledFrom([][2]string{{"a", "ab"}, {"ab", "abc"}, {"k", "key"}, {"1", "12"}, {"<", "<="}, {"in", "int"}, {"é", "é日"}}).Draw(t, "prefixpair")
		alt := &Pat{Kind: "alt", Kids: []*Pat{{Kind: "lit", Text: pair[0]}, {Kind: "lit", Text: pair[1]}}}
		if rapid.IntRange(0, 2).Draw(t, "thirdalt") == 0 {
			alt.Kids = append(alt.Kids, x)
		}
		g := &Pat{Kind: "group", Cap: rapid.IntRange(0, 3).Draw(t, "altcap") == 0, Kids: []*Pat{alt}}
		if rapid.Bool().Draw(t, "altalone") {
			return g
		}
		return &Pat{Kind: "cat", Kids: []*Pat{g, x}}
	case 8, 9:
		// a case-insensitive literal of several characters whose folded forms differ in UTF-8 length
		// (k / KELVIN SIGN, s / LONG S): byte lengths and character counts disagree
		lit := &Pat{Kind: "lit", Text: rapid.SampledFrom([]string{"key", "ks", "sk", "ask", "kk", "\u212aey", "skip"}).Draw(t, "foldlit")}
		ic := &Pat{Kind: "icase", Kids: []*Pat{lit}}
		if rapid.Bool().Draw(t, "foldalone") {
			return ic
		}
		return &Pat{Kind: "cat", Kids: []*Pat{ic, x}}
	case 6, 7:
		// one or more iterations of a body made only of optional parts: X(?:a*b?)+ -- an iteration that
		// matches nothing still counts as an iteration
		a, b := genAtom(t, o), genAtom(t, o)
		first := &Pat{Kind: "rep", Min: 0, Max: -1, Kids: []*Pat{a}}
		if rapid.Bool().Draw(t, "optfirst") {
			first.Max = 1
		}
		body := &Pat{Kind: "cat", Kids: []*Pat{first, {Kind: "rep", Min: 0, Max: 1, Kids: []*Pat{b}}}}
		min := rapid.SampledFrom([]int{1, 1, 2}).Draw(t, "plusmin")
		return &Pat{Kind: "cat", Kids: []*Pat{x, {Kind: "rep", Min: min, Max: -1, Kids: []*Pat{{Kind: "group", Cap: rapid.Bool().Draw(t, "pluscap"), Kids: []*Pat{body}}}}}}
	case 4, 5:
		// a tail made only of optional parts, nested in a (capturing) group: X(a?b?)
		a, b := genAtom(t, o), genAtom(t, o)
		tail := &Pat{Kind: "cat", Kids: []*Pat{{Kind: "rep", Min: 0, Max: 1, Kids: []*Pat{a}}, {Kind: "rep", Min: 0, Max: 1, Kids: []*Pat{b}}}}
		return &Pat{Kind: "cat", Kids: []*Pat{x, {Kind: "group", Cap: rapid.Bool().Draw(t, "tailcap"), Kids: []*Pat{tail}}}}
	case 0:
		return &Pat{Kind: "group", Kids: []*Pat{{Kind: "alt", Kids: []*Pat{{Kind: "lit", Text: ""}, x}}}}
	case 1:
		return &Pat{Kind: "group", Kids: []*Pat{{Kind: "alt", Kids: []*Pat{x, {Kind: "lit", Text: ""}}}}}
	case 2:
		return &Pat{Kind: "rep", Min: 0, Max: -1, Kids: []*Pat{{Kind: "group", Kids: []*Pat{{Kind: "rep", Min: 0, Max: 1, Kids: []*Pat{wrapRep(x)}}}}}}
	default:
		return &Pat{Kind: "rep", Min: 1, Max: -1, Kids: []*Pat{{Kind: "group", Kids: []*Pat{{Kind: "rep", Min: 0, Max: -1, Kids: []*Pat{wrapRep(x)}}}}}}
	}
}

func wrapRep(p *Pat) *Pat {
	if p.Kind == "rep" || p.Kind == "anchor" {
		return &Pat{Kind: "group", Kids: []*Pat{p}}
	}
	return p
}
