package lexgen

import (
	"regexp/syntax"
	"unicode"
	"unicode/utf8"
)

// Possessive matches pattern at the start of text without ever giving characters back: repetition
// is greedy and never retried shorter, alternation takes the first alternative that matches on its
// own and never revisits the choice. It returns the end of the match or -1. ok is false when the
// pattern uses something outside the generator's supported class (non-greedy operators).
// This is the executable form of the code generator's documented limitation.
func Possessive(pattern, text string) (end int, ok bool) {
	re, err := syntax.Parse(pattern, syntax.Perl)
	if err != nil {
		return -1, false
	}
	re = re.Simplify()
	m := &pmatcher{s: text, ok: true}
	end = m.match(re, 0)
	return end, m.ok
}

type pmatcher struct {
	s  string
	ok bool
}

func foldEq(a, b rune) bool {
	if a == b {
		return true
	}
	for r := unicode.SimpleFold(a); r != a; r = unicode.SimpleFold(r) {
		if r == b {
			return true
		}
	}
	return false
}

func (m *pmatcher) decode(p int) (rune, int) {
	if p >= len(m.s) {
		return -1, 0
	}
	if m.s[p] < utf8.RuneSelf {
		return rune(m.s[p]), 1
	}
	return utf8.DecodeRuneInString(m.s[p:])
}

func (m *pmatcher) match(re *syntax.Regexp, p int) int {
	if re.Flags&syntax.NonGreedy != 0 {
		m.ok = false
	}
	switch re.Op {
	case syntax.OpNoMatch:
		return -1
	case syntax.OpEmptyMatch:
		return p
	case syntax.OpLiteral:
		for _, want := range re.Rune {
			r, n := m.decode(p)
			if n == 0 {
				return -1
			}
			if re.Flags&syntax.FoldCase != 0 {
				if !foldEq(r, want) {
					return -1
				}
			} else if r != want || (r == utf8.RuneError && n == 1 && want == utf8.RuneError && false) {
				return -1
			}
			p += n
		}
		return p
	case syntax.OpCharClass:
		r, n := m.decode(p)
		if n == 0 {
			return -1
		}
		for i := 0; i+1 < len(re.Rune); i += 2 {
			if r >= re.Rune[i] && r <= re.Rune[i+1] {
				return p + n
			}
		}
		return -1
	case syntax.OpAnyCharNotNL:
		r, n := m.decode(p)
		if n == 0 || r == '\n' {
			return -1
		}
		return p + n
	case syntax.OpAnyChar:
		_, n := m.decode(p)
		if n == 0 {
			return -1
		}
		return p + n
	case syntax.OpBeginLine, syntax.OpEndLine, syntax.OpBeginText, syntax.OpEndText, syntax.OpWordBoundary, syntax.OpNoWordBoundary:
		var l, u rune = -1, -1
		if p > 0 {
			l, _ = utf8.DecodeLastRuneInString(m.s[:p])
		}
		if p < len(m.s) {
			u, _ = m.decode(p)
		}
		ctx := syntax.EmptyOpContext(l, u)
		var want syntax.EmptyOp
		switch re.Op {
		case syntax.OpBeginLine:
			want = syntax.EmptyBeginLine
		case syntax.OpEndLine:
			want = syntax.EmptyEndLine
		case syntax.OpBeginText:
			want = syntax.EmptyBeginText
		case syntax.OpEndText:
			want = syntax.EmptyEndText
		case syntax.OpWordBoundary:
			want = syntax.EmptyWordBoundary
		default:
			want = syntax.EmptyNoWordBoundary
		}
		if ctx&want != 0 {
			return p
		}
		return -1
	case syntax.OpCapture:
		return m.match(re.Sub[0], p)
	case syntax.OpStar:
		for {
			np := m.match(re.Sub[0], p)
			if np == -1 || np == p {
				return p
			}
			p = np
		}
	case syntax.OpPlus:
		p = m.match(re.Sub[0], p)
		if p == -1 {
			return -1
		}
		for {
			np := m.match(re.Sub[0], p)
			if np == -1 || np == p {
				return p
			}
			p = np
		}
	case syntax.OpQuest:
		if np := m.match(re.Sub[0], p); np != -1 {
			return np
		}
		return p
	case syntax.OpRepeat:
		// Simplify() removes counted repetition; handle it anyway
		n := 0
		for re.Max < 0 || n < re.Max {
			np := m.match(re.Sub[0], p)
			if np == -1 {
				break
			}
			n++
			if np == p {
				break
			}
			p = np
		}
		if n < re.Min {
			return -1
		}
		return p
	case syntax.OpConcat:
		for _, sub := range re.Sub {
			p = m.match(sub, p)
			if p == -1 {
				return -1
			}
		}
		return p
	case syntax.OpAlternate:
		for _, sub := range re.Sub {
			if np := m.match(sub, p); np != -1 {
				return np
			}
		}
		return -1
	}
	m.ok = false
	return -1
}

// CanMatchEmpty decides on the regexp/syntax tree whether the pattern can match the empty string.
func CanMatchEmpty(pattern string) bool {
	re, err := syntax.Parse(pattern, syntax.Perl)
	if err != nil {
		return false
	}
	var null func(re *syntax.Regexp) bool
	null = func(re *syntax.Regexp) bool {
		switch re.Op {
		case syntax.OpEmptyMatch, syntax.OpStar, syntax.OpQuest,
			syntax.OpBeginLine, syntax.OpEndLine, syntax.OpBeginText, syntax.OpEndText, syntax.OpWordBoundary, syntax.OpNoWordBoundary:
			return true
		case syntax.OpLiteral:
			return len(re.Rune) == 0
		case syntax.OpCapture, syntax.OpPlus:
			return null(re.Sub[0])
		case syntax.OpRepeat:
			return re.Min == 0 || null(re.Sub[0])
		case syntax.OpConcat:
			for _, s := range re.Sub {
				if !null(s) {
					return false
				}
			}
			return true
		case syntax.OpAlternate:
			for _, s := range re.Sub {
				if null(s) {
					return true
				}
			}
			return false
		}
		return false
	}
	return null(re)
}

// HasNonGreedy reports whether the pattern uses a non-greedy operator.
func HasNonGreedy(pattern string) bool {
	re, err := syntax.Parse(pattern, syntax.Perl)
	if err != nil {
		return false
	}
	found := false
	var walk func(re *syntax.Regexp)
	walk = func(re *syntax.Regexp) {
		if re.Flags&syntax.NonGreedy != 0 && (re.Op == syntax.OpStar || re.Op == syntax.OpPlus || re.Op == syntax.OpQuest || re.Op == syntax.OpRepeat) {
			found = true
		}
		for _, s := range re.Sub {
			walk(s)
		}
	}
	walk(re)
	return found
}
