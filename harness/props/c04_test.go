package props

import (
	"bytes"
	"encoding/json"
	"fmt"
	"io"
	"sort"
	"strings"
	"testing"
	"testing/iotest"
	"text/scanner"
	"verifharness/fixtures"

	"github.com/alecthomas/participle/v2"
	"github.com/alecthomas/participle/v2/lexer"
	"pgregory.net/rapid"

	"verifharness/lexgen"
	"verifharness/vstat"
)

// ---- C04: tokens are lossless and their positions are exact ----

type c04Case struct {
	Kind     string          `json:"kind"` // stateful | simple | scanner | scanner-comments | scanner-newlines
	RS       *lexgen.RuleSet `json:"rules,omitempty"`
	Input    string          `json:"input"`
	InputHex string          `json:"input_hex,omitempty"`
	Filename string          `json:"filename"`
	Entry    string          `json:"entry"` // string | reader | bytes
	Text     string          `json:"rules_text,omitempty"`
}

const c04Rule = "lexers: generated stateful definitions, simple (single-state) lexers, the default text/scanner lexer and configured " +
	"variants (comments as tokens, newline as token) x inputs rich in \\n, \\r, tabs, 2-4 byte runes, invalid UTF-8 (stateful only), " +
	"tokens spanning newlines, inputs longer than the scanner's buffer x entry points (string / reader / bytes, readers that deliver one byte at a time or their last bytes with io.EOF, " +
	"a reader already read from, a second live lexer, Parser.Lex of a parser that elides and case-folds) x filenames; oracle: " +
	"validity predicate computed from the input alone (value == input[off:off+len], increasing non-overlapping offsets, single final EOF " +
	"at len(input), concatenation == input when nothing is dropped, line/column recomputed from the offset, filename); judged only when " +
	"lexing succeeds; non-trivial = >=2 lines, >=1 multi-byte rune and >=3 tokens; distinct by SHA-256 of the case"

func c04Def(c *c04Case) (lexer.Definition, bool, string) {
	switch c.Kind {
	case "stateful":
		def, rej := newDef(c.RS)
		if rej != "" {
			return nil, false, rej
		}
		return def, !c.RS.HasLowerCase(), ""
	case "simple":
		var rules []lexer.SimpleRule
		for _, r := range c.RS.States[0].Rules {
			rules = append(rules, lexer.SimpleRule{Name: r.Name, Pattern: r.Pattern})
		}
		var def *lexer.StatefulDefinition
		var err error
		if p := guard(func() { def, err = lexer.NewSimple(rules) }); p != "" || err != nil {
			return nil, false, fmt.Sprintf("rejected: %v %s", err, p)
		}
		return def, !c.RS.HasLowerCase(), ""
	case "scanner":
		return lexer.TextScannerLexer, false, ""
	case "scanner-comments":
		return lexer.NewTextScannerLexer(func(s *scanner.Scanner) { s.Mode = scanner.GoTokens &^ scanner.SkipComments }), false, ""
	case "scanner-newlines":
		return lexer.NewTextScannerLexer(func(s *scanner.Scanner) { s.Whitespace = 1<<'\t' | 1<<' ' | 1<<'\r' }), false, ""
	}
	return nil, false, "unknown kind"
}

func c04Lex(def lexer.Definition, c *c04Case) lexRun {
	var r lexRun
	r.panicMsg = guard(func() {
		var l lexer.Lexer
		switch c.Entry {
		case "reader":
			l, r.err = def.Lex(c.Filename, strings.NewReader(c.Input))
		case "dataerr":
			// a reader that returns its last data together with io.EOF (flate, HTTP bodies, ...)
			l, r.err = def.Lex(c.Filename, iotest.DataErrReader(strings.NewReader(c.Input)))
		case "onebyte":
			l, r.err = def.Lex(c.Filename, iotest.OneByteReader(strings.NewReader(c.Input)))
		case "partreader":
			// a reader the caller has already read from: the input is what is left in it
			rd := strings.NewReader("consumed é\n" + c.Input)
			_, _ = io.CopyN(io.Discard, rd, int64(len("consumed é\n")))
			l, r.err = def.Lex(c.Filename, rd)
		case "secondlexer":
			// another lexer of the same definition is created, and read from, before this one is drained
			l, r.err = def.Lex(c.Filename, strings.NewReader(c.Input))
			if r.err == nil {
				if l2, err := def.Lex("other", strings.NewReader("zz 9 `raw`\n+ é")); err == nil {
					_, _ = l2.Next()
					defer func() { _, _ = l2.Next() }()
				}
			}
		case "parserlex":
			// Parser.Lex of a parser over the definition: exactly the definition's tokens, whatever the parser elides
			// or compares case-insensitively when it parses
			var names []string
			for n := range def.Symbols() {
				if n != "EOF" {
					names = append(names, n)
				}
			}
			sort.Strings(names)
			opts := []participle.Option{participle.Lexer(def)}
			if len(names) > 0 {
				opts = append(opts, participle.Elide(names[0]), participle.CaseInsensitive(names[len(names)-1]), participle.CaseInsensitive(names[0]))
			}
			p, err := participle.Build[tokenList](opts...)
			if err != nil {
				r.err = err
				return
			}
			r.toks, r.err = p.Lex(c.Filename, strings.NewReader(c.Input))
			return
		case "namedreader":
			// a reader with a Name() of its own (like *os.File): the caller's filename is what positions carry
			if c.Kind == "scanner" {
				l = lexer.Lex(c.Filename, fixtures.NamedReader{Reader: strings.NewReader(c.Input)})
			} else {
				l, r.err = def.Lex(c.Filename, fixtures.NamedReader{Reader: strings.NewReader(c.Input)})
			}
		case "bytes":
			if bd, ok := def.(lexer.BytesDefinition); ok {
				l, r.err = bd.LexBytes(c.Filename, []byte(c.Input))
			} else if strings.HasPrefix(c.Kind, "scanner") && c.Kind == "scanner" {
				l = lexer.LexBytes(c.Filename, []byte(c.Input))
			} else {
				l, r.err = def.Lex(c.Filename, bytes.NewReader([]byte(c.Input)))
			}
		default:
			if sd, ok := def.(lexer.StringDefinition); ok {
				l, r.err = sd.LexString(c.Filename, c.Input)
			} else if c.Kind == "scanner" {
				l = lexer.LexString(c.Filename, c.Input)
			} else {
				l, r.err = def.Lex(c.Filename, strings.NewReader(c.Input))
			}
		}
		if r.err != nil {
			return
		}
		r.toks, r.err = lexer.ConsumeAll(l)
	})
	return r
}

func checkC04(c *c04Case, r *vstat.Run) outcome {
	def, complete, rej := c04Def(c)
	if rej != "" {
		if r != nil {
			r.Count("definition_rejected")
		}
		return outcome{}
	}
	run := c04Lex(def, c)
	if run.panicMsg != "" {
		if r != nil {
			r.Count("lexer_panicked_left_to_C07")
		}
		return outcome{}
	}
	if run.err != nil {
		if r != nil {
			r.Count("lexing_failed_not_judged")
		}
		return outcome{}
	}
	if r != nil {
		r.Eval()
		r.Count("kind_" + c.Kind)
		multiLine := strings.Count(c.Input, "\n") >= 1
		multiByte := false
		for _, ru := range c.Input {
			if ru > 127 {
				multiByte = true
			}
		}
		spanning := false
		for _, tk := range run.toks {
			if i := strings.Index(tk.Value, "\n"); i >= 0 {
				for _, ru := range tk.Value[i:] {
					if ru > 127 {
						spanning = true
					}
				}
			}
		}
		if spanning {
			r.Count("token_contains_newline_followed_by_multibyte_rune")
		}
		if len(c.Input) == 0 {
			r.Count("empty_input")
		}
		if len(c.Input) > 1024 {
			r.Count("input_longer_than_scanner_buffer")
		}
		if multiLine && multiByte && len(run.toks) >= 3 {
			r.NonTrivial(mustJSON(c), func() any {
				cc := *c
				if c.RS != nil {
					cc.Text = c.RS.String()
				}
				if len(cc.Input) > 300 {
					cc.Input = cc.Input[:300] + "…(truncated in sample)"
				}
				return cc
			})
		}
	}
	errs := lexgen.ValidateTokens(c.Input, c.Filename, run.toks, complete)
	if len(errs) > 0 {
		sig := "tokens"
		if strings.HasPrefix(c.Kind, "scanner") && len(errs) == 1 && strings.Contains(errs[0], "position 0:0") && len(c.Input) == 0 {
			sig = "F9-scanner-empty-input-eof-position"
		}
		in := c.Input
		if len(in) > 200 {
			in = in[:200] + "…"
		}
		desc := ""
		if c.RS != nil {
			desc = c.RS.String()
		}
		return violationf(sig, "%s lexer, entry %s, input %q (len %d): %s\n%s", c.Kind, c.Entry, in, len(c.Input), strings.Join(errs, "; "), desc)
	}
	return outcome{}
}

var goPieces = []string{
	"a", "foo", "x1", "é", "日本", "_b", "0", "42", "3.14", "1e3", "0x1F", `"str"`, `"é\n"`, "`raw`", "`multi\nline é`", "`a\r\nb`", "'c'", "'é'",
	"+", "-", "(", ")", "{", "}", ";", ",", ".", "=", "==", "<", "&", "// comment é\n", "/* c */", "/* multi\nline 日 */",
	" ", "  ", "\t", "\n", "\r\n", "\n\n", "\r",
}

func genGoInput(t *rapid.T) string {
	n := rapid.IntRange(0, 15).Draw(t, "n") // rapid favours the lower bound: map it to a mid size, keep empty rare
	if n == 0 {
		n = 5
	} else if n == 15 {
		n = 0
	}
	var sb strings.Builder
	for i := 0; i < n; i++ {
		sb.WriteString(rapid.SampledFrom(goPieces).Draw(t, "piece"))
		if rapid.IntRange(0, 2).Draw(t, "sp") == 0 {
			sb.WriteString(rapid.SampledFrom([]string{" ", "\n", "\t", "\r\n"}).Draw(t, "ws"))
		}
	}
	s := sb.String()
	if rapid.IntRange(0, 15).Draw(t, "bom") == 0 {
		s = "\ufeff" + s
	}
	if rapid.IntRange(0, 24).Draw(t, "long") == 0 {
		// longer than text/scanner's 1024-byte buffer, multi-byte runes straddling the boundary
		rep := rapid.SampledFrom([]string{"é ", "日本 x\n", "ab\r\n", "`r\né` "}).Draw(t, "rep")
		s = strings.Repeat(rep, 1+1100/len(rep)) + s
	}
	return s
}

func TestC04(t *testing.T) {
	runProp(t, "C04", c04Rule, func(t *rapid.T, r *vstat.Run) {
		c := &c04Case{
			Filename: rapid.SampledFrom([]string{"", "f", "dir/file.x", "é.txt"}).Draw(t, "filename"),
			Entry:    rapid.SampledFrom([]string{"string", "reader", "bytes", "string", "reader", "bytes", "dataerr", "onebyte", "namedreader", "partreader", "secondlexer", "parserlex"}).Draw(t, "entry"),
		}
		switch k := rapid.IntRange(0, 10).Draw(t, "kind"); {
		case k == 10:
			c.Kind = "stateful"
			rs, in := drawFixtureLexCase(t)
			c.RS, c.Input = rs, in
			if strings.ToValidUTF8(in, "�") != in {
				c.InputHex = fmt.Sprintf("%x", in)
			}
			r.Count("realistic_example_lexer")
			report(t, r, checkC04(c, r), c)
			return
		case k <= 3:
			c.Kind = "stateful"
			g := lexgen.GenRuleSet(t, lexgen.RuleOpts{NoLowerCase: rapid.Bool().Draw(t, "nolower")})
			c.RS = g.RS
			if _, rej := newDef(g.RS); rej != "" {
				r.Count("definition_rejected")
				return
			}
			for i := 0; i < 6; i++ {
				cc := *c
				cc.Input = g.GenInput(t)
				if strings.ToValidUTF8(cc.Input, "�") != cc.Input {
					cc.InputHex = fmt.Sprintf("%x", cc.Input)
				}
				report(t, r, checkC04(&cc, r), &cc)
			}
			return
		case k == 4:
			c.Kind = "simple"
			g := lexgen.GenRuleSet(t, lexgen.RuleOpts{MaxStates: 1, NoBackrefs: true, NoLowerCase: rapid.Bool().Draw(t, "nolower")})
			c.RS = g.RS
			for i := 0; i < 6; i++ {
				cc := *c
				cc.Input = g.GenInput(t)
				if strings.ToValidUTF8(cc.Input, "�") != cc.Input {
					cc.InputHex = fmt.Sprintf("%x", cc.Input)
				}
				report(t, r, checkC04(&cc, r), &cc)
			}
			return
		case k <= 7:
			c.Kind = "scanner"
		case k == 8:
			c.Kind = "scanner-comments"
		default:
			c.Kind = "scanner-newlines"
		}
		for i := 0; i < 4; i++ {
			cc := *c
			cc.Input = genGoInput(t)
			report(t, r, checkC04(&cc, r), &cc)
		}
	})
}

func TestC04Replay(t *testing.T) {
	replayAll(t, "C04", func(raw json.RawMessage) outcome {
		var c c04Case
		if err := json.Unmarshal(raw, &c); err != nil {
			return violationf("harness", "bad replay: %v", err)
		}
		if c.InputHex != "" {
			lc := lexCase{InputHex: c.InputHex}
			lc.fix()
			c.Input = lc.Input
		}
		return checkC04(&c, nil)
	})
}
