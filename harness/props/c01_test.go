package props

import (
	"encoding/json"
	"fmt"
	"reflect"
	"strings"
	"testing"

	"github.com/alecthomas/participle/v2"
	"pgregory.net/rapid"

	"verifharness/gram"
	"verifharness/vstat"
)

// ---- shared machinery for the grammar-engine properties (C01, C02, C10, C11, C13) ----

type gramCase struct {
	G             *gram.Grammar `json:"grammar"`
	Input         string        `json:"input"`
	Input2        string        `json:"input2,omitempty"` // C10: second rendering of the same tokens
	AllowTrailing bool          `json:"allow_trailing,omitempty"`
	Text          string        `json:"grammar_text,omitempty"`   // human-readable rendering (informational)
	PRoot         bool          `json:"parseable_root,omitempty"` // C10: the root production is user code that accepts any token stream
	// Derived > 0 (C11): Input2 is parsed by a parser derived for that inner production (ParserForProduction) after the
	// grammar's own parser has parsed Input (DerivedFirst: before)
	Derived      int    `json:"derived,omitempty"`
	DerivedFirst bool   `json:"derived_first,omitempty"`
	DerivedAlt   string `json:"derived_alt,omitempty"` // C10: another rendering of Input2's tokens
}

// parsed is everything one (grammar, input) evaluation produced.
type parsed struct {
	b        *gram.Built
	lx       *gram.Lexed
	m        *gram.Model
	wantOK   bool
	wantNode *gram.Node
	wantEnd  int
	ast      *gram.Root
	err      error
	panicMsg string
	skipped  string // non-empty: case outside the domain / too expensive (counted, not judged)
}

// buildCache avoids rebuilding the same grammar for several inputs.
func buildGrammar(g *gram.Grammar) (b *gram.Built, msg string) {
	var err error
	if p := guard(func() { b, err = gram.Build(g) }); p != "" {
		return nil, "Build panicked: " + p
	}
	if err != nil {
		return nil, "Build failed for a well-formed generated grammar: " + err.Error()
	}
	return b, ""
}

func runModel(b *gram.Built, lx *gram.Lexed, allowTrailing bool) (m *gram.Model, ok bool, node *gram.Node, end int, expensive bool) {
	m = gram.NewModel(b.G, lx.Toks)
	func() {
		defer func() {
			if r := recover(); r != nil {
				if _, is := r.(gram.TooExpensive); is {
					expensive = true
					return
				}
				if _, is := r.(gram.Unsupported); is {
					expensive = true // not evaluated by the reference parser: the case is skipped like an expensive one
					return
				}
				panic(r)
			}
		}()
		ok, node, end = m.Parse(allowTrailing)
	}()
	return
}

func parseWith(b *gram.Built, input string, allowTrailing bool) *parsed {
	p := &parsed{b: b}
	lx, err := b.Lex(input)
	if err != nil {
		p.skipped = "unlexable"
		return p
	}
	p.lx = lx
	var expensive bool
	p.m, p.wantOK, p.wantNode, p.wantEnd, expensive = runModel(b, lx, allowTrailing)
	if expensive {
		p.skipped = "expensive"
		return p
	}
	p.panicMsg = guard(func() {
		var opts []participle.ParseOption
		if allowTrailing {
			opts = append(opts, participle.AllowTrailing(true))
		}
		p.ast, p.err = b.P.ParseString("f", input, opts...)
	})
	return p
}

// panicSig classifies a panic of the library.
func panicSig(msg string) string {
	switch {
	case strings.Contains(msg, "index out of range [0] with length 0") && strings.Contains(msg, "setField"):
		return "F10-empty-capture-into-token"
	case strings.Contains(msg, "reflect.Value.Convert") || strings.Contains(msg, "reflect.Set"):
		return "F3-union-member-ref"
	}
	return "panic"
}

func mismatchSig(mis []gram.Mismatch) string {
	if len(mis) == 0 {
		return ""
	}
	all := true
	for _, m := range mis {
		if m.Cat != "tok-leading-elided" && m.Cat != "toks-leading-elided" {
			all = false
		}
	}
	if all {
		return "F2-token-capture-leading-elided"
	}
	allDyn := true
	for _, m := range mis {
		if m.Cat != "dyn-type" {
			allDyn = false
		}
	}
	if allDyn {
		return "F3-union-member-ref"
	}
	return "ast"
}

func fmtMis(mis []gram.Mismatch) string {
	var sb strings.Builder
	for i, m := range mis {
		if i >= 8 {
			fmt.Fprintf(&sb, " … (%d more)\n", len(mis)-i)
			break
		}
		sb.WriteString(" " + m.String() + "\n")
	}
	return sb.String()
}

func describeCase(c *gramCase) string {
	return fmt.Sprintf("input %q allowTrailing=%v\n%s", c.Input, c.AllowTrailing, c.G.String())
}

// ---- C01 ----

const c01Rule = "generated grammars (<=7 productions, <=4 unions incl. recursive ones, every tag-language operator, typed literals, " +
	"case-insensitive types, trap shapes; lexer profiles: a stateful lexer, the default text/scanner lexer, a user-written lexer.Definition with positive token types; one case in twenty goes " +
	"through a parser derived for an inner production of a static recursive family) x lookahead ladder x AllowTrailing x 4 sampled/mutated inputs each, compared with a " +
	"clean-room reference parser (acceptance + field-by-field AST); non-trivial = accepted after >=1 abandoned attempt that had " +
	"consumed >=1 token, or rejected by a commit (failure beyond the lookahead), or a typed literal decided a match, or " +
	"production nesting depth >= 2; distinct by SHA-256 of (grammar, input, options)"

func checkC01(c *gramCase, b *gram.Built, r *vstat.Run) outcome {
	p := parseWith(b, c.Input, c.AllowTrailing)
	if p.skipped != "" {
		if r != nil {
			r.Count("skipped_" + p.skipped)
		}
		return outcome{}
	}
	if r != nil {
		r.Eval()
		noteParseStats(r, c, p)
	}
	if p.panicMsg != "" {
		return violationf(panicSig(p.panicMsg), "Parse panicked: %s\n%s", p.panicMsg, describeCase(c))
	}
	if (p.err == nil) != p.wantOK {
		return violationf("acceptance", "acceptance differs: documented meaning accepts=%v, parser error=%v\n%s", p.wantOK, p.err, describeCase(c))
	}
	if !p.wantOK {
		return outcome{}
	}
	cmp := &gram.Comparer{B: b, L: p.lx, Values: true}
	cmp.Node(reflect.ValueOf(p.ast.V), p.wantNode, 0, "root")
	if len(cmp.Mis) > 0 {
		return violationf(mismatchSig(cmp.Mis), "AST differs from the accepted derivation:\n%s%s\nAST: %s", fmtMis(cmp.Mis), describeCase(c), gram.Plain(reflect.ValueOf(p.ast.V)))
	}
	return outcome{}
}

func noteParseStats(r *vstat.Run, c *gramCase, p *parsed) {
	m := p.m
	nt := false
	if p.wantOK {
		r.Count("accepted")
		if m.Abandoned > 0 {
			r.Count("accepted_after_abandoned_attempt")
			nt = true
		}
		if m.AbandonedWithCaps > 0 {
			r.Count("accepted_after_abandoned_attempt_with_captures")
		}
		if m.AbandonedWithSub > 0 {
			r.Count("accepted_after_abandoned_attempt_with_completed_subproduction")
		}
		if m.AbandonedSubFail > 0 {
			r.Count("accepted_after_abandoned_attempt_with_half_failed_subproduction")
		}
	} else {
		r.Count("rejected")
		if m.Commits > 0 {
			r.Count("rejected_with_commit")
			nt = true
		}
	}
	if m.AtK > 0 {
		r.Count("abandoned_at_exactly_k_tokens")
	}
	if m.AtK1 > 0 {
		r.Count("committed_at_exactly_k_plus_1_tokens")
	}
	if m.TypedVsRef > 0 {
		r.Count("typed_literal_matched")
		nt = true
	}
	if m.MaxDepth >= 2 {
		r.Count("nesting_depth_ge_2")
		nt = true
	}
	if m.ElidedMatched > 0 {
		r.Count("elided_token_matched_explicitly")
	}
	if m.ChoiceAtElided > 0 {
		r.Count("choice_point_starts_on_elided_token")
	}
	if nt {
		r.NonTrivial(mustJSON(c), func() any {
			cc := *c
			cc.Text = c.G.String()
			return cc
		})
	}
}

var c01Opts = gram.GenOpts{MaxProds: 5, MaxDepth: 4, TrapPercent: 25, PosStyles: true, MixedUnion: true, Profiles: true, Parseables: true, DeepEmbeds: true, Statics: true}

func TestC01(t *testing.T) { runProp(t, "C01", c01Rule, propC01) }

func FuzzC01(f *testing.F) { fuzzProp(f, "C01", propC01) }

func propC01(t *rapid.T, r *vstat.Run) {
	{
		if rapid.IntRange(0, 19).Draw(t, "derived") == 0 {
			// a parser derived for an inner production (ParserForProduction) means what that production means
			if c, b, _ := genDerived(t, r); c != nil {
				report(t, r, checkC01Derived(c, b, r), c)
			}
			return
		}
		o := c01Opts
		o.NameElided = rapid.IntRange(0, 9).Draw(t, "nameElided") == 0
		g := gram.GenGrammar(t, o)
		b, msg := buildGrammar(g)
		if msg != "" {
			report(t, r, violationf("build", "%s\n%s", msg, g.String()), &gramCase{G: g})
			return
		}
		r.Count("grammars")
		for i := 0; i < 4; i++ {
			toks := gram.GenInput(t, g)
			c := &gramCase{G: g, Input: gram.Render(t, g, toks, "r"), AllowTrailing: rapid.IntRange(0, 4).Draw(t, "trailing") == 0}
			report(t, r, checkC01(c, b, r), c)
		}
	}
}

func TestC01Replay(t *testing.T) {
	replayAll(t, "C01", func(raw json.RawMessage) outcome {
		var c gramCase
		if err := json.Unmarshal(raw, &c); err != nil {
			return violationf("harness", "bad replay: %v", err)
		}
		b, msg := buildGrammar(c.G)
		if msg != "" {
			return violationf("build", "%s", msg)
		}
		if c.Derived > 0 {
			return checkC01Derived(&c, b, nil)
		}
		return checkC01(&c, b, nil)
	})
}

// shrinkGram minimises a failing (grammar, input) case structurally: rapid shrinks its random draws
// well but leaves multi-production grammars large, so a greedy delta pass drops alternatives,
// sequence elements, modifiers and whole production bodies while the same deviation persists.
func shrinkGram(check func(c *gramCase, b *gram.Built) outcome) func(f *vstat.Failure) *vstat.Failure {
	return func(f *vstat.Failure) *vstat.Failure {
		var c gramCase
		if err := json.Unmarshal(f.Case, &c); err != nil || c.G == nil {
			return nil
		}
		var last outcome
		fails := func(cc *gramCase) bool {
			b, msg := buildGrammar(cc.G)
			if msg != "" {
				return false
			}
			o := check(cc, b)
			if o.failed() && o.sig == f.Sig {
				last = o
				return true
			}
			return false
		}
		if !fails(&c) {
			return nil
		}
		cur := c
		for round := 0; round < 3; round++ {
			g := gram.Shrink(cur.G, func(g *gram.Grammar) bool {
				cc := cur
				cc.G = g
				return fails(&cc)
			}, 600)
			cur.G = g
			cur.Input = gram.ShrinkText(cur.Input, func(s string) bool {
				cc := cur
				cc.Input = s
				return fails(&cc)
			}, 200)
		}
		if !fails(&cur) {
			return nil
		}
		cur.Text = cur.G.String()
		b, _ := json.Marshal(cur)
		return &vstat.Failure{Property: f.Property, Message: last.msg, Sig: f.Sig, Case: b}
	}
}

func init() {
	shrinkers["C01"] = shrinkGram(func(c *gramCase, b *gram.Built) outcome { return checkC01(c, b, nil) })
	shrinkers["C02"] = shrinkGram(func(c *gramCase, b *gram.Built) outcome { return checkC02(c, b, nil) })
	shrinkers["C10"] = shrinkGram(func(c *gramCase, b *gram.Built) outcome {
		if c.Input2 == "" {
			return checkC01(c, b, nil)
		}
		return checkC10(c, b, nil)
	})
	shrinkers["C11"] = shrinkGram(func(c *gramCase, b *gram.Built) outcome { return checkC11(c, b, nil) })
}
