package props

import (
	"bytes"
	"encoding/hex"
	"encoding/json"
	"fmt"
	"os"
	"reflect"
	"runtime/debug"
	"strings"
	"testing"
	"testing/iotest"
	"time"

	"github.com/alecthomas/participle/v2"
	"github.com/alecthomas/participle/v2/lexer"
	"pgregory.net/rapid"

	"verifharness/fixtures"
	"verifharness/gram"
	"verifharness/lexgen"
	"verifharness/vstat"
)

// ---- C06: parsing any input returns a value or a well-formed, located error ----

type c06Case struct {
	Fixture  string        `json:"fixture,omitempty"` // name of a ported example grammar ...
	G        *gram.Grammar `json:"grammar,omitempty"` // ... or a generated grammar
	Entry    string        `json:"entry"`             // string | bytes | reader | slowreader
	Filename string        `json:"filename"`
	InputHex string        `json:"input_hex"`
	Input    string        `json:"input,omitempty"` // informational copy when short and valid UTF-8
	Shape    string        `json:"shape,omitempty"` // how the input was made
	Text     string        `json:"grammar_text,omitempty"`
	// ... or a token-list parser over a generated stateful lexer definition
	RS *lexgen.RuleSet `json:"rules,omitempty"`
}

func (c *c06Case) bytes() []byte {
	b, _ := hex.DecodeString(c.InputHex)
	return b
}

func newC06Case(in []byte) *c06Case {
	c := &c06Case{InputHex: hex.EncodeToString(in)}
	if len(in) <= 400 && strings.ToValidUTF8(string(in), "�") == string(in) {
		c.Input = string(in)
	}
	return c
}

// put = parser under test behind a type-erased interface.
type put struct {
	name    string
	parse   func(entry, filename string, in []byte, opts ...participle.ParseOption) (any, error)
	lex     func(filename string, in []byte) ([]lexer.Token, error)
	foreign bool // the grammar has user Parseable code that may return foreign errors
}

func putForFixture(f *fixtures.Fixture) *put {
	return &put{name: f.Name, parse: f.Parse, lex: f.Lex, foreign: fixtureHasUserCode[f.Name]}
}

// fixtures whose grammar types implement Parseable with their own (non-participle) errors
var fixtureHasUserCode = map[string]bool{"protobuf": true, "precedenceclimbing": true, "expr4": true}

func putForGrammar(b *gram.Built) *put {
	return &put{name: "generated", parse: func(entry, filename string, in []byte, opts ...participle.ParseOption) (any, error) {
		var ast *gram.Root
		var err error
		switch entry {
		case "bytes":
			// the buffer is the caller's: it is reused as soon as the call has returned
			buf := append([]byte(nil), in...)
			ast, err = b.P.ParseBytes(filename, buf, opts...)
			for i := range buf {
				buf[i] = '#'
			}
		case "namedreader":
			ast, err = b.P.Parse(filename, fixtures.NamedReader{Reader: bytes.NewReader(in)}, opts...)
		case "dataerr":
			ast, err = b.P.Parse(filename, iotest.DataErrReader(bytes.NewReader(in)), opts...)
		case "reader", "slowreader":
			ast, err = b.P.Parse(filename, bytes.NewReader(in), opts...)
		default:
			ast, err = b.P.ParseString(filename, string(in), opts...)
		}
		if ast == nil {
			return nil, err
		}
		return ast, err
	}, lex: func(filename string, in []byte) ([]lexer.Token, error) { return b.P.Lex(filename, bytes.NewReader(in)) }}
}

// putForRules is a parser that accepts any token stream of a generated stateful lexer definition: whatever the
// lexer does with hostile input reaches the caller of Parse* through the parser.
func putForRules(rs *lexgen.RuleSet) (*put, string) {
	def, err := lexer.New(rs.ToRules())
	if err != nil {
		return nil, err.Error()
	}
	p, err := participle.Build[tokenList](participle.Lexer(def))
	if err != nil {
		return nil, err.Error()
	}
	return &put{name: "token-list over generated rules", parse: func(entry, filename string, in []byte, opts ...participle.ParseOption) (any, error) {
		var ast *tokenList
		var err error
		switch entry {
		case "bytes":
			buf := append([]byte(nil), in...)
			ast, err = p.ParseBytes(filename, buf, opts...)
			for i := range buf {
				buf[i] = '#'
			}
		case "namedreader":
			ast, err = p.Parse(filename, fixtures.NamedReader{Reader: bytes.NewReader(in)}, opts...)
		case "reader", "slowreader":
			ast, err = p.Parse(filename, bytes.NewReader(in), opts...)
		default:
			ast, err = p.ParseString(filename, string(in), opts...)
		}
		if ast == nil {
			return nil, err
		}
		return ast, err
	}, lex: func(filename string, in []byte) ([]lexer.Token, error) { return p.Lex(filename, bytes.NewReader(in)) }}, ""
}

const c06Rule = "parsers: hand-ported copies of the repository's example grammars (ini, json, hcl, toml, sql, microc, graphql, ...) and " +
	"generated grammars; inputs: the fixtures' sample files mutated at byte and token level (every prefix of short samples, chunk " +
	"deletion/duplication/replacement, invalid UTF-8, empty), token soup and raw bytes for generated grammars, nesting amplified to a few " +
	"hundred levels and flat inputs up to 10^5 items (under a 64 MiB stack limit with a crash journal); all three entry points and several " +
	"filenames; oracle (validity predicates): no panic, returns within the watchdog, never (nil, nil); an error implements " +
	"participle.Error, its position has the supplied filename, an offset inside the input and line/column recomputed from the offset, " +
	"Error() == [file:]line:col: + message, an UnexpectedTokenError names the token that Parser.Lex shows at that position, lexing " +
	"failure => nil AST, parse failure => non-nil AST; recursion depth read from the Trace output is equal for flat inputs of length n " +
	"and 10n and linear in the nesting depth; non-trivial = error inside a nested production, or >=1000 tokens, or nesting >=50; " +
	"distinct by SHA-256 of the case"

// wellFormed checks the outcome of one parse against C06's predicates.
func wellFormed(p *put, c *c06Case, in []byte, ast any, err error, r *vstat.Run) outcome {
	short := string(in)
	if len(short) > 120 {
		short = short[:120] + "…"
	}
	desc := fmt.Sprintf("%s grammar, entry %s, filename %q, input %q (len %d)", p.name, c.Entry, c.Filename, short, len(in))
	if c.G != nil {
		desc += "\n" + c.G.String()
	}
	if err == nil {
		if fixtures.IsNil(ast) {
			return violationf("nil-nil", "%s: neither an AST nor an error was returned", desc)
		}
		return outcome{}
	}
	wantFile := c.Filename
	if c.Entry == "namedreader" && wantFile == "" {
		wantFile = fixtures.ReaderName // documented fallback: the reader's own name when no filename is given
	}
	// is it a lexing failure?
	toks, lexErr := p.lex(wantFile, in)
	if lexErr != nil {
		if !fixtures.IsNil(ast) {
			return violationf("ast-on-lex-error", "%s: lexing fails (%v) but a non-nil AST was returned with the error %v", desc, lexErr, err)
		}
	} else if fixtures.IsNil(ast) {
		return violationf("nil-ast-on-parse-error", "%s: lexing succeeds but the parse error %q comes with a nil AST (a partial AST is expected)", desc, err)
	}
	perr, ok := err.(participle.Error)
	if !ok {
		if p.foreign {
			if r != nil {
				r.Count("foreign_error_from_user_code_not_judged")
			}
			return outcome{}
		}
		return violationf("error-type", "%s: error %q (%T) does not implement participle.Error", desc, err, err)
	}
	pos := perr.Position()
	if pos.Filename != wantFile {
		return violationf("error-filename", "%s: error position carries filename %q: %v", desc, pos.Filename, err)
	}
	if pos.Line == 0 && pos.Column == 0 && pos.Offset == 0 {
		return violationf("error-no-position", "%s: error %q has no position", desc, err)
	}
	if pos.Offset < 0 || pos.Offset > len(in) {
		return violationf("error-offset", "%s: error offset %d is outside the input: %v", desc, pos.Offset, err)
	}
	if l, col := lexgen.LineCol(string(in), pos.Offset); l != pos.Line || col != pos.Column {
		return violationf("error-linecol", "%s: error position %d:%d does not match its offset %d (which is %d:%d): %v", desc, pos.Line, pos.Column, pos.Offset, l, col, err)
	}
	prefix := ""
	if pos.Filename != "" {
		prefix = pos.Filename + ":"
	}
	prefix += fmt.Sprintf("%d:%d:", pos.Line, pos.Column)
	if want := prefix + " " + perr.Message(); err.Error() != want {
		return violationf("error-text", "%s: Error() = %q, want %q", desc, err.Error(), want)
	}
	if ute, ok := err.(*participle.UnexpectedTokenError); ok && lexErr == nil {
		found := false
		for _, tk := range toks {
			if tk.Pos == ute.Unexpected.Pos {
				found = true
				if tk != ute.Unexpected {
					return violationf("unexpected-token", "%s: the error names token %#v but the token at that position is %#v", desc, ute.Unexpected, tk)
				}
			}
		}
		if !found {
			return violationf("unexpected-token", "%s: the error names token %#v, no token of the stream is at that position", desc, ute.Unexpected)
		}
	}
	return outcome{}
}

// parenDepth is the maximum parenthesis nesting reached anywhere in the input.
func parenDepth(in []byte) int {
	depth, max := 0, 0
	for _, b := range in {
		switch b {
		case '(':
			depth++
			if depth > max {
				max = depth
			}
		case ')':
			if depth > 0 {
				depth--
			}
		}
	}
	return max
}

// f19Excluded: inputs of the sql fixture that nest parentheses deeper than 10 and are not the pristine
// nesting sample (which parses in linear time). A parse that fails at that depth takes time exponential in
// the depth (known finding F19), so these inputs are excluded by construction.
func f19Excluded(fixture string, in []byte) bool {
	if fixture != "sql" {
		return false
	}
	d := parenDepth(in)
	if d <= 10 {
		return false
	}
	if f := fixtures.Get("sql"); f != nil && f.Nesting != nil && f.Nesting(d) == string(in) {
		return false
	}
	return true
}

const sigExpo = "F19-exponential-backtracking-sql-unclosed-parens"

// checkC06Expo re-observes known finding F19: the time the sql example grammar needs for "SELECT ((((..."
// doubles with every unclosed parenthesis (a failed alternative reports its failure at its own start, so the
// enclosing choice between `"(" Expression ")"` and the array `"(" Expression, ... ")"` re-parses the rest).
func checkC06Expo(p *put, c *c06Case) outcome {
	timeFor := func(n int) float64 {
		in := []byte("SELECT " + strings.Repeat("(", n))
		t0 := time.Now()
		pm := guard(func() { _, _ = p.parse("string", "f", in) })
		if isHang(pm) {
			return hangLimit.Seconds()
		}
		return time.Since(t0).Seconds()
	}
	t12, t16 := timeFor(12), timeFor(16)
	if t16 > 0.25 && t16 > 6*t12 {
		return violationf(sigExpo, "sql grammar: parsing \"SELECT\" + 12 unclosed parentheses takes %.3fs, with 16 it takes %.3fs (x%.0f): exponential in the nesting depth; 60 of them do not return within %v", t12, t16, t16/t12, hangLimit)
	}
	return outcome{}
}

func checkC06(p *put, c *c06Case, r *vstat.Run) outcome {
	in := c.bytes()
	if c.Shape == "expo" {
		return checkC06Expo(p, c)
	}
	if f19Excluded(c.Fixture, in) && (r == nil || r.Known(sigExpo)) {
		// known finding F19, excluded by construction (each occurrence would cost the 20 s watchdog)
		if r != nil {
			r.Excluded(sigExpo)
		}
		return outcome{}
	}
	var ast any
	var err error
	risky := len(in) > 20000 || strings.HasPrefix(c.Shape, "nest") || c.Shape == "ignoredrun"
	if risky && r != nil {
		r.Journal(c, "parse of a long or deeply nested input")
	}
	scale := 1
	if c.Shape == "flat100k" || c.Shape == "ignoredrun" || c.Shape == "nest300" {
		scale = 6 // megabytes of input legitimately take seconds
	}
	pm := guardFor(func() { ast, err = p.parse(c.Entry, c.Filename, in) }, scale)
	if risky && r != nil {
		r.JournalDone()
	}
	if r != nil {
		r.Eval()
		r.Count("shape_" + c.Shape)
		if err != nil {
			r.Count("error_returned")
		}
	}
	if pm != "" {
		short := string(in)
		if len(short) > 200 {
			short = short[:200] + "…"
		}
		sig := "panic"
		if isHang(pm) {
			sig = "hang"
		}
		if strings.Contains(pm, "[panic raised by the fixture's own") {
			if r != nil {
				r.Count("panic_in_user_code_of_the_fixture_not_judged")
			}
			return outcome{}
		}
		if c.Shape == "nest_recursive_system" && (strings.Contains(pm, "did not progress") || strings.Contains(pm, "too many iterations")) {
			// recursive systems may contain union members that match nothing: the library's own grammar-bug class
			if r != nil {
				r.Count("grammar_bug_class_not_judged")
			}
			return outcome{}
		}
		// Generated grammars never contain an alternative or repetition body that can match without consuming a
		// token (generator soundness rule), so the library's "did not progress" / "too many iterations" reactions
		// to that grammar-bug class are not exempted here.
		g := ""
		if c.G != nil {
			g = "\n" + c.G.String()
		}
		return violationf(sig, "%s grammar, entry %s, input %q: %s%s", p.name, c.Entry, short, pm, g)
	}
	return wellFormed(p, c, in, ast, err, r)
}

// fixtures whose grammar parses an operator chain by right recursion (Addition = Multiplication (op Addition)?):
// for them "1 + 1 + ..." is nested input, not flat input, so the bounded-stack comparison does not apply
var rightRecursiveChains = map[string]bool{"expr2": true}

// text of tokens that the fixture's lexer drops itself (lower-case rules) or that the parser elides
var ignoredRuns = map[string]string{"ini": "# c\n", "toml": "# c\n", "graphql": "# c\n", "json": " \n", "thrift": " \n", "stateful": " \n"}

// traceDepthOf parses with Trace and returns the maximum node nesting.
func traceDepthOf(p *put, in string) (int, string) {
	var buf bytes.Buffer
	pm := guard(func() { _, _ = p.parse("string", "f", []byte(in), participle.Trace(&buf)) })
	return traceDepth(buf.String()), pm
}

// checkC06Stack: flat inputs need bounded recursion, nested inputs linear recursion.
func checkC06Stack(f *fixtures.Fixture, r *vstat.Run) outcome {
	p := putForFixture(f)
	if f.Flat != nil && !rightRecursiveChains[f.Name] {
		d1, pm1 := traceDepthOf(p, f.Flat(60))
		d2, pm2 := traceDepthOf(p, f.Flat(600))
		if pm1 != "" || pm2 != "" {
			return violationf("panic", "%s: parsing a flat input panicked: %s %s", f.Name, pm1, pm2)
		}
		if r != nil {
			r.Eval()
			r.Count("flat_depth_comparisons")
			r.NonTrivial("flat:"+f.Name, func() any { return map[string]any{"fixture": f.Name, "flat_depth_60": d1, "flat_depth_600": d2} })
		}
		if d2 > d1+2 {
			return violationf("flat-depth", "%s: recursion depth grows with the length of a flat input: %d nodes deep for 60 items, %d for 600", f.Name, d1, d2)
		}
		// a long flat input under the 64 MiB stack limit (a crash is attributed through the journal)
		n := 100000
		if r != nil && r.Tier == "quick" {
			n = 20000
		}
		long := f.Flat(n)
		c := newC06Case([]byte(long))
		c.Fixture, c.Entry, c.Filename, c.Shape = f.Name, "string", "f", "flat100k"
		if o := checkC06(p, c, r); o.failed() {
			return o
		}
		if r != nil {
			r.NonTrivial("flat100k:"+f.Name, nil)
		}
	}
	if run, ok := ignoredRuns[f.Name]; ok {
		// a long run of tokens that the lexer drops (comments / whitespace): flat input for the lexer
		n := 120000
		if r != nil && r.Tier == "quick" {
			n = 60000
		}
		c := newC06Case([]byte(strings.Repeat(run, n) + f.Samples[0]))
		c.Fixture, c.Entry, c.Filename, c.Shape = f.Name, "string", "f", "ignoredrun"
		if o := checkC06(p, c, r); o.failed() {
			return o
		}
		if r != nil {
			r.NonTrivial("ignoredrun:"+f.Name, nil)
		}
	}
	if f.Nesting != nil {
		d10, _ := traceDepthOf(p, f.Nesting(10))
		d20, _ := traceDepthOf(p, f.Nesting(20))
		d80, pm := traceDepthOf(p, f.Nesting(80))
		if pm != "" {
			return violationf("panic", "%s: parsing an input nested 80 levels panicked: %s", f.Name, pm)
		}
		slope := d20 - d10
		if r != nil {
			r.Eval()
			r.Count("nesting_depth_comparisons")
			r.NonTrivial("nest:"+f.Name, func() any {
				return map[string]any{"fixture": f.Name, "depth_at_10": d10, "depth_at_20": d20, "depth_at_80": d80}
			})
		}
		if limit := d20 + 6*(slope+1)*3/2 + 10; d80 > limit {
			return violationf("nest-depth", "%s: recursion depth is not proportional to the nesting: depth %d at nesting 10, %d at 20, %d at 80 (limit %d)", f.Name, d10, d20, d80, limit)
		}
		deep := f.Nesting(300)
		c := newC06Case([]byte(deep))
		c.Fixture, c.Entry, c.Filename, c.Shape = f.Name, "string", "f", "nest300"
		if o := checkC06(p, c, r); o.failed() {
			return o
		}
	}
	return outcome{}
}

// ---- input mutation ----

var c06Junk = [][]byte{[]byte("\xff"), []byte("\x80"), []byte("\x00"), []byte("\xc3"), []byte("\xe2\x82"), []byte("\xbf\xbf x"), []byte("\xf0\x9f\x98"), []byte("é"), []byte("日本"), []byte("\""), []byte("'"), []byte("`"), []byte("\\"), []byte("\n"), []byte("\r\n"),
	[]byte("("), []byte(")"), []byte("{"), []byte("}"), []byte("["), []byte("]"), []byte("/*"), []byte("*/"), []byte("//"), []byte("#"), []byte("="), []byte(";"), []byte(","), []byte("0x"), []byte("1e"), []byte("${"), []byte("<<"), []byte("@"), []byte("$"), []byte(" "),
	[]byte(`\q`), []byte(`"\q"`), []byte(`"\x4"`), []byte(`'\u12'`), []byte(`"a\400b"`), []byte(`\`)}

func mutateBytes(t *rapid.T, sample []byte) ([]byte, string) {
	b := append([]byte(nil), sample...)
	switch rapid.IntRange(0, 9).Draw(t, "mutk") {
	case 9:
		// a byte-order mark in front: ordinary input for every entry point alike
		return append([]byte("\ufeff"), b...), "mutated"
	case 0:
		return b, "sample"
	case 1:
		if len(b) == 0 {
			return b, "empty"
		}
		return b[:rapid.IntRange(0, len(b)-1).Draw(t, "prefix")], "prefix"
	case 2:
		return nil, "empty"
	case 3:
		// put a line break followed by multi-byte text inside a quoted token / comment and end the input on that line
		var quotes []int
		for i, ch := range b {
			if ch == '"' || ch == '\'' || ch == '`' || ch == '#' {
				quotes = append(quotes, i)
			}
		}
		if len(quotes) > 0 {
			a := quotes[rapid.IntRange(0, len(quotes)-1).Draw(t, "quote")] + 1
			ins := []byte(rapid.SampledFrom([]string{"x\né日 ", "\nzwölf é ", "a\r\nüü", "\n\n日本語", "\x80\xbf", "é\xe2\x82 ", `\q`, `a\x4`, `\u12z`, `\400`}).Draw(t, "spanins"))
			b = append(b[:a:a], append(ins, b[a:]...)...)
			end := a + len(ins)
			for end < len(b) && b[end] != '\n' {
				end++
			}
			cut := rapid.IntRange(a+len(ins), end).Draw(t, "spancut")
			if rapid.Bool().Draw(t, "docut") {
				b = b[:cut]
			}
			return b, "spanning"
		}
		return b, "sample"
	}
	n := rapid.IntRange(1, 3).Draw(t, "nmut")
	for i := 0; i < n; i++ {
		switch rapid.IntRange(0, 4).Draw(t, "op") {
		case 0: // delete a chunk
			if len(b) > 0 {
				a := rapid.IntRange(0, len(b)-1).Draw(t, "a")
				l := rapid.IntRange(1, 6).Draw(t, "l")
				if a+l > len(b) {
					l = len(b) - a
				}
				b = append(b[:a:a], b[a+l:]...)
			}
		case 1: // insert junk
			a := rapid.IntRange(0, len(b)).Draw(t, "a")
			j := rapid.SampledFrom(c06Junk).Draw(t, "junk")
			b = append(b[:a:a], append(append([]byte(nil), j...), b[a:]...)...)
		case 2: // replace a byte
			if len(b) > 0 {
				a := rapid.IntRange(0, len(b)-1).Draw(t, "a")
				b[a] = rapid.SampledFrom(c06Junk).Draw(t, "rb")[0]
			}
		case 3: // duplicate a chunk
			if len(b) > 0 {
				a := rapid.IntRange(0, len(b)-1).Draw(t, "a")
				l := rapid.IntRange(1, 12).Draw(t, "l")
				if a+l > len(b) {
					l = len(b) - a
				}
				chunk := append([]byte(nil), b[a:a+l]...)
				b = append(b[:a+l:a+l], append(chunk, b[a+l:]...)...)
			}
		case 4: // swap two chunks
			if len(b) > 4 {
				a := rapid.IntRange(0, len(b)-2).Draw(t, "a")
				c := rapid.IntRange(a+1, len(b)-1).Draw(t, "c")
				b[a], b[c] = b[c], b[a]
			}
		}
	}
	return b, "mutated"
}

func TestC06(t *testing.T) {
	debug.SetMaxStack(64 << 20)
	runProp(t, "C06", c06Rule, propC06)
}

func FuzzC06(f *testing.F) {
	debug.SetMaxStack(64 << 20)
	fuzzProp(f, "C06", propC06)
}

var c06StackDone = map[string]bool{}

func propC06(t *rapid.T, r *vstat.Run) {
	fxs := fixtures.All()
	stackDone := c06StackDone
	if os.Getenv("VERIF_FUZZ") != "" {
		stackDone = map[string]bool{} // the recursion-depth comparisons belong to the rapid run
		for _, f := range fxs {
			stackDone[f.Name] = true
		}
	}
	{
		entry := rapid.SampledFrom([]string{"string", "string", "bytes", "reader", "slowreader", "namedreader"}).Draw(t, "entry")
		filename := rapid.SampledFrom([]string{"f", "", "dir/x.cfg", "é"}).Draw(t, "filename")
		switch k := rapid.IntRange(0, 9).Draw(t, "kind"); {
		case k <= 5 && len(fxs) > 0:
			f := fxs[rapid.IntRange(0, len(fxs)-1).Draw(t, "fixture")]
			if !stackDone[f.Name] && r.Tier != "" {
				// once per fixture and process: the recursion-depth comparisons
				stackDone[f.Name] = true
				report(t, r, checkC06Stack(f, r), &c06Case{Fixture: f.Name, Shape: "stack"})
			}
			var base []byte
			shape := ""
			switch s := rapid.IntRange(0, 9).Draw(t, "src"); {
			case s == 0 && f.Nesting != nil:
				base, shape = []byte(f.Nesting(rapid.IntRange(1, 120).Draw(t, "nest"))), "nest"
			case s == 1 && f.Flat != nil:
				base, shape = []byte(f.Flat(rapid.IntRange(1, 1500).Draw(t, "flat"))), "flat"
			default:
				base = []byte(f.Samples[rapid.IntRange(0, len(f.Samples)-1).Draw(t, "sample")])
			}
			in, mshape := mutateBytes(t, base)
			c := newC06Case(in)
			c.Fixture, c.Entry, c.Filename, c.Shape = f.Name, entry, filename, shape+mshape
			o := checkC06(putForFixture(f), c, r)
			if shape != "" || (mshape == "mutated" || mshape == "prefix") {
				r.NonTrivial(c.Fixture+c.InputHex+c.Entry, func() any { return c })
			}
			report(t, r, o, c)
		default:
			if rapid.IntRange(0, 5).Draw(t, "ruleslexer") == 0 {
				// a parser over a generated stateful lexer (Pop/Return reachable in the root state, back-references, ...)
				gen := lexgen.GenRuleSet(t, lexgen.RuleOpts{})
				p, rej := putForRules(gen.RS)
				if rej != "" {
					r.Count("definition_rejected")
					return
				}
				for i := 0; i < 4; i++ {
					c := newC06Case([]byte(gen.GenInput(t)))
					c.RS, c.Entry, c.Filename, c.Shape = gen.RS, entry, filename, "generated_lexer"
					o := checkC06(p, c, r)
					r.NonTrivial(mustJSON(c), func() any { cc := *c; cc.Text = gen.RS.String(); return cc })
					report(t, r, o, c)
				}
				return
			}
			var g *gram.Grammar
			recursive := rapid.IntRange(0, 4).Draw(t, "recsys") == 0
			if recursive {
				// recursive systems: whatever Build accepts must parse without unbounded recursion
				g, _ = gram.GenRecSystem(t)
			} else {
				g = gram.GenGrammar(t, gram.GenOpts{MaxProds: 4, MaxDepth: 3, TrapPercent: 15, PosStyles: true, MixedUnion: true, Profiles: true, Parseables: true, BadElide: true, NameElided: rapid.IntRange(0, 7).Draw(t, "named") == 0})
			}
			b, msg := buildGrammar(g)
			if msg != "" && len(g.ExtraElide) > 0 && g.ExtraElide[0] != "EOF" {
				r.Count("misspelt_option_rejected_by_Build")
				return
			}
			if msg != "" {
				r.Count("build_failed_left_to_C19")
				return
			}
			p := putForGrammar(b)
			for i := 0; i < 3; i++ {
				var in []byte
				shape := "tokens"
				if rapid.IntRange(0, 3).Draw(t, "raw") == 0 {
					in, _ = mutateBytes(t, []byte(gram.RenderMinimal(g, gram.GenInput(t, g))))
					shape = "bytes"
				} else {
					in = []byte(gram.Render(t, g, gram.GenInput(t, g), "r"))
				}
				// a system the independent oracle calls left-recursive but Build accepted is not gated by the reference
				// parser (which cannot run it): the real parser must still return without unbounded recursion
				missedLR := false
				if recursive {
					missedLR, _ = g.LeftRecursive()
				}
				if lx, err := b.Lex(string(in)); err == nil && !missedLR {
					// cost guard (known finding F19 class: exponential backtracking of ambiguous recursive grammars)
					if _, _, _, _, expensive := runModel(b, lx, false); expensive {
						r.Count("skipped_expensive")
						continue
					}
				}
				c := newC06Case(in)
				c.G, c.Entry, c.Filename, c.Shape = g, entry, filename, "generated_"+shape
				if recursive {
					c.Shape = "nest_recursive_system" // journalled: a missed left recursion kills the process
				}
				o := checkC06(p, c, r)
				r.NonTrivial(mustJSON(c), func() any {
					cc := *c
					cc.Text = g.String()
					cc.G = nil
					return cc
				})
				report(t, r, o, c)
			}
		}
	}
}

func TestC06Replay(t *testing.T) {
	debug.SetMaxStack(64 << 20)
	replayAll(t, "C06", func(raw json.RawMessage) outcome {
		var c c06Case
		if err := json.Unmarshal(raw, &c); err != nil {
			return violationf("harness", "bad replay: %v", err)
		}
		if c.Shape == "stack" {
			f := fixtures.Get(c.Fixture)
			if f == nil {
				return outcome{}
			}
			return checkC06Stack(f, nil)
		}
		if c.RS != nil {
			p, rej := putForRules(c.RS)
			if rej != "" {
				return outcome{}
			}
			return checkC06(p, &c, nil)
		}
		if c.G != nil {
			b, msg := buildGrammar(c.G)
			if msg != "" {
				return outcome{}
			}
			return checkC06(putForGrammar(b), &c, nil)
		}
		f := fixtures.Get(c.Fixture)
		if f == nil {
			return violationf("harness", "unknown fixture %q", c.Fixture)
		}
		return checkC06(putForFixture(f), &c, nil)
	})
}

var _ = reflect.TypeOf
