package props

import (
	"encoding/json"
	"fmt"
	"os"
	"path/filepath"
	"runtime/debug"
	"sort"
	"strings"
	"syscall"
	"testing"
	"time"

	"pgregory.net/rapid"

	"verifharness/vstat"
)

// outcome of running one structured case through a property's oracle.
type outcome struct {
	msg string // "" = property held
	sig string // signature of the deviation (matched against KNOWN_FINDINGS.txt)
}

func (o outcome) failed() bool { return o.msg != "" }

func violationf(sig, format string, args ...any) outcome {
	return outcome{msg: fmt.Sprintf(format, args...), sig: sig}
}

// hangLimit bounds a single call into the library. Typical calls take microseconds; a call that has
// not returned after this long is reported as a hang (termination properties need some bound).
var hangLimit = time.Duration(vstat.EnvInt("VERIF_HANG_S", 20)) * time.Second

// guard runs f (a call into the code under test) on its own goroutine, converts a panic into an
// error string and reports a call that does not return as "HANG: ...". The bound is hangLimit of
// *CPU time of this process* (a busy machine stretches wall time, not CPU time; one property runs
// per process), or ten times hangLimit of wall time for a call that is blocked rather than busy.
func guard(f func()) (panicMsg string) { return guardFor(f, 1) }

// slowLog (VERIF_SLOWLOG=1, development aid) reports guarded calls that take more than two seconds.
var slowLog = os.Getenv("VERIF_SLOWLOG") != ""

// guardFor is guard with the bound multiplied by scale (inputs of megabytes legitimately take seconds).
func guardFor(f func(), scale int) (panicMsg string) {
	done := make(chan string, 1)
	go func() {
		msg := ""
		defer func() {
			if r := recover(); r != nil {
				st := string(debug.Stack())
				msg = fmt.Sprintf("panic: %v\n%s", r, trimStack(st))
				if i := strings.Index(st, "panic("); i >= 0 {
					// the frame right below panic() tells whose code panicked
					rest := st[i:]
					if j := strings.Index(rest, "\n"); j >= 0 {
						rest = rest[j+1:]
					}
					lines := strings.SplitN(rest, "\n", 3)
					if len(lines) >= 2 && strings.Contains(lines[1], "verifharness/fixtures.") {
						msg += "\n[panic raised by the fixture's own Parseable/Capture code]"
					}
				}
			}
			done <- msg
		}()
		f()
	}()
	limit := hangLimit * time.Duration(scale)
	cpu0, wall0 := processCPU(), time.Now()
	idleCPU, idleSince := cpu0, wall0
	lastTick, lastCPU := wall0, cpu0
	tick := time.NewTicker(250 * time.Millisecond)
	defer tick.Stop()
	for {
		select {
		case msg := <-done:
			if slowLog && time.Since(wall0) > 2*time.Second {
				if lf, err := os.OpenFile(os.Getenv("VERIF_SLOWLOG"), os.O_APPEND|os.O_CREATE|os.O_WRONLY, 0o644); err == nil {
					fmt.Fprintf(lf, "SLOW-CASE wall=%v cpu=%v scale=%d\n", time.Since(wall0).Round(time.Millisecond), (processCPU() - cpu0).Round(time.Millisecond), scale)
					lf.Close()
				}
			}
			return msg
		case <-tick.C:
			// this watchdog was itself not run for several seconds although its ticker fires four times a second: the
			// process as a whole was stopped (a snapshot of the virtual machine, SIGSTOP, a machine out of memory). Such a
			// gap says nothing about the call; the clocks jump over it -- the wall clock by the length of the gap, the
			// CPU clock by whatever the kernel charged meanwhile (after a snapshot: the whole gap, to the thread that
			// happened to run). A call that loops or blocks does not stop the ticker from being served.
			now, cpuNow := time.Now(), processCPU()
			if gap := now.Sub(lastTick); gap > 5*time.Second {
				wall0, idleSince = wall0.Add(gap), idleSince.Add(gap)
				cpu0, idleCPU = cpu0+(cpuNow-lastCPU), idleCPU+(cpuNow-lastCPU)
			}
			lastTick, lastCPU = now, cpuNow
			// blocked: the call has not returned and the whole process has used next to no CPU for 45 seconds
			// (a busy machine slows a running call down, it does not stop its CPU clock; a machine that is out of
			// memory can stall a process for seconds, hence the long window)
			if cpu := processCPU(); cpu-idleCPU > 30*time.Millisecond {
				idleCPU, idleSince = cpu, time.Now()
			} else if idle := time.Since(idleSince); idle >= 45*time.Second {
				return fmt.Sprintf("HANG: the call is blocked: it has not returned after %v and the process has been idle for the last %v (deadlock)", time.Since(wall0).Round(time.Second), idle.Round(time.Second))
			}
			if wall := time.Since(wall0); wall >= limit {
				if cpu := processCPU() - cpu0; cpu >= limit || wall >= 10*limit {
					return fmt.Sprintf("HANG: the call did not return within %v of CPU time (%v of wall time)", cpu.Round(time.Second), wall.Round(time.Second))
				}
			}
		}
	}
}

// processCPU is the user-mode CPU time this process has consumed (system time is left out: on a machine that is
// short of memory the kernel burns minutes of it on behalf of a process that computes nothing).
func processCPU() time.Duration {
	var ru syscall.Rusage
	if err := syscall.Getrusage(syscall.RUSAGE_SELF, &ru); err != nil {
		return 0
	}
	return time.Duration(ru.Utime.Nano())
}

func isHang(msg string) bool { return strings.HasPrefix(msg, "HANG:") }

func trimStack(st string) string {
	lines := strings.Split(st, "\n")
	var keep []string
	for i := 0; i < len(lines) && len(keep) < 8; i++ {
		l := lines[i]
		if strings.Contains(l, "participle") && !strings.HasPrefix(l, "\t") {
			l = strings.TrimSpace(l)
			if k := strings.Index(l, "("); k > 0 && strings.HasPrefix(l, "github.com/alecthomas/participle/v2") {
				l = l[:k]
			}
			keep = append(keep, l)
		}
	}
	return strings.Join(keep, "\n")
}

// report applies the known-findings policy to a failing outcome inside a rapid property:
// a listed signature is counted as excluded and the search continues, anything else fails.
func report(t *rapid.T, r *vstat.Run, o outcome, c any) {
	if !o.failed() {
		return
	}
	if r.Known(o.sig) {
		r.Excluded(o.sig)
		return
	}
	r.NoteFailure(o.msg, o.sig, c)
	if os.Getenv("VERIF_FUZZ") != "" {
		// native fuzzing: the worker process is not driven by runProp, save the case right here
		r.SaveViolation()
	}
	if strings.Contains(o.msg, "HANG:") {
		// a goroutine is still spinning inside the library: shrinking would hang again and again, so the
		// unshrunk case is saved and the process ends here
		r.Freeze()
		r.SaveViolation()
		r.Flush()
		os.Exit(1)
	}
	t.Fatalf("%s", o.msg)
}

// shrinkers: per-property second-stage shrinkers over the structured replay case.
var shrinkers = map[string]func(f *vstat.Failure) *vstat.Failure{}

// runProp drives prop with rapid, writes the replay file + VIOLATION line on failure and flushes
// the partial evidence.
func runProp(t *testing.T, id, rule string, prop func(t *rapid.T, r *vstat.Run)) {
	r := vstat.For(id)
	r.SetRule(rule)
	ok := t.Run("rapid", func(t *testing.T) {
		rapid.Check(t, func(rt *rapid.T) { prop(rt, r) })
	})
	if !ok {
		r.Freeze()
		if r.LastFailure() != nil {
			if sh, has := shrinkers[id]; has {
				// second shrinking stage: deterministic delta pass over the structured case
				if smaller := sh(r.LastFailure()); smaller != nil {
					r.NoteFailure(smaller.Message, smaller.Sig, json.RawMessage(smaller.Case))
				}
			}
			r.SaveViolation()
		} else {
			// the property function itself broke (generator/harness bug): never a verdict
			r.Inconclusive("harness failure without a recorded case (see test output)")
			fmt.Println("HARNESS-ERROR property=" + id + ": rapid failed without a recorded failing case")
		}
	}
	r.Flush()
	if !ok {
		t.FailNow()
	}
}

// replayAll re-runs every saved case of a property without rapid.
//
//	replays/<ID>/*.json        regression inputs: must pass (or match a listed known finding)
//	replays/<ID>/known/*.json  reproducers of listed known findings: re-observed, reported
func replayAll(t *testing.T, id string, run func(raw json.RawMessage) outcome) {
	r := vstat.For(id)
	r.SetRule("replay of saved cases")
	dir := filepath.Join(vstat.Root(), "replays", id)
	failed := false
	files, _ := filepath.Glob(filepath.Join(dir, "*.json"))
	sort.Strings(files)
	if only := os.Getenv("VERIF_REPLAY_FILE"); only != "" {
		files = []string{only}
	}
	for _, f := range files {
		fl, err := loadFailure(f)
		if err != nil {
			fmt.Printf("replay %s: unreadable: %v\n", f, err)
			continue
		}
		var o outcome
		r.Journal(json.RawMessage(fl.Case), "replay of "+filepath.Base(f))
		if p := guard(func() { o = run(fl.Case) }); p != "" {
			o = outcome{msg: "harness/replay " + p, sig: "panic"}
		}
		r.JournalDone()
		r.Eval()
		r.Count("replayed")
		if !o.failed() {
			continue
		}
		if r.Known(o.sig) {
			r.Excluded(o.sig)
			continue
		}
		failed = true
		fmt.Printf("VIOLATION property=%s replay=%s\n", id, f)
		fmt.Printf("  detail: %s\n", strings.ReplaceAll(o.msg, "\n", "\n  "))
	}
	if os.Getenv("VERIF_REPLAY_FILE") == "" {
		kfiles, _ := filepath.Glob(filepath.Join(dir, "known", "*.json"))
		sort.Strings(kfiles)
		seen := map[string]bool{}
		for _, f := range kfiles {
			fl, err := loadFailure(f)
			if err != nil {
				continue
			}
			var o outcome
			if p := guard(func() { o = run(fl.Case) }); p != "" {
				o = outcome{msg: "harness/replay " + p, sig: "panic"}
			}
			r.Eval()
			r.Count("replayed_known")
			switch {
			case !o.failed():
				fmt.Printf("NOTE property=%s known reproducer %s no longer reproduces\n", id, filepath.Base(f))
			case r.Known(o.sig):
				seen[o.sig] = true
				r.Excluded(o.sig)
			default:
				failed = true
				fmt.Printf("VIOLATION property=%s replay=%s\n", id, f)
				fmt.Printf("  detail: (saved as reproducer of a known finding but deviates differently, sig=%q) %s\n", o.sig, o.msg)
			}
		}
		sigs := r.KnownSigs()
		keys := make([]string, 0, len(sigs))
		for k := range sigs {
			keys = append(keys, k)
		}
		sort.Strings(keys)
		for _, k := range keys {
			state := "re-observed on its saved reproducer"
			if !seen[k] {
				state = "not re-observed by a saved reproducer in this run"
			}
			fmt.Printf("KNOWN-FINDING: property=%s sig=%s %s (%s)\n", id, k, sigs[k], state)
		}
	}
	r.Flush()
	if failed {
		t.FailNow()
	}
}

func loadFailure(path string) (*vstat.Failure, error) {
	data, err := os.ReadFile(path)
	if err != nil {
		return nil, err
	}
	var f vstat.Failure
	if err := json.Unmarshal(data, &f); err != nil {
		return nil, err
	}
	return &f, nil
}

func mustJSON(v any) string {
	b, err := json.Marshal(v)
	if err != nil {
		return fmt.Sprintf("%#v", v)
	}
	return string(b)
}

// fuzzProp adapts a rapid property for go test -fuzz (coverage-guided): the fuzzer's bytes drive rapid's
// generators, so the same structured cases and oracles are explored under coverage feedback.
func fuzzProp(f *testing.F, id string, prop func(t *rapid.T, r *vstat.Run)) {
	r := vstat.For(id)
	for _, seed := range [][]byte{{}, {1, 2, 3, 4, 5, 6, 7, 8}, []byte("participle-verif-seed-corpus-entry-0123456789abcdefghijklmnopqrstuvwxyz")} {
		f.Add(seed)
	}
	f.Fuzz(rapid.MakeFuzz(func(t *rapid.T) { prop(t, r) }))
}
