package props

import (
	"encoding/json"
	"fmt"
	"sync"
	"testing"

	"github.com/alecthomas/participle/v2/lexer"
	"pgregory.net/rapid"

	"verifharness/vstat"
)

// ---- C12: PeekingLexer cursors stay consistent under any sequence of operations ----

type c12Tok struct {
	Type  int    `json:"type"` // 1..4 ordinary types
	Value string `json:"value"`
}

type c12Op struct {
	Op   string `json:"op"`
	Pred string `json:"pred,omitempty"` // type | value | false | true
	Arg  int    `json:"arg,omitempty"`  // type number / value index / cursor index / checkpoint index
	Arg2 int    `json:"arg2,omitempty"`
	Str  string `json:"str,omitempty"`
	Obs  int    `json:"obs"` // bit mask of the observers called after the step: 1 Peek, 2 RawPeek, 4 RawCursor, 8 Cursor
	// PeekAny only: the predicate looks at the lexer it is called from (Inspect) / panics at its PanicAt-th call and
	// the caller recovers: PeekAny is an observation, whatever its predicate does
	Inspect bool `json:"inspect,omitempty"`
	PanicAt int  `json:"panic_at,omitempty"`
}

type c12Case struct {
	Toks  []c12Tok `json:"toks"`
	Elide []int    `json:"elide"`
	Ops   []c12Op  `json:"ops"`
	// LongRun > 0: the stream starts with, and has after its first LongAt tokens, a run of LongRun tokens of the type
	// Elide[0] (kept out of Toks so that the replay file stays small)
	LongRun int `json:"long_run,omitempty"`
	LongAt  int `json:"long_at,omitempty"`
}

// expanded is the token list with the long elided run inserted.
func (c *c12Case) expanded() []c12Tok {
	if c.LongRun <= 0 || len(c.Elide) == 0 {
		return c.Toks
	}
	at := c.LongAt
	if at > len(c.Toks) {
		at = len(c.Toks)
	}
	out := append([]c12Tok(nil), c.Toks[:at]...)
	for i := 0; i < c.LongRun; i++ {
		out = append(out, c12Tok{Type: c.Elide[0], Value: " "})
	}
	return append(out, c.Toks[at:]...)
}

type sliceLexer struct {
	toks []lexer.Token
	i    int
}

func (s *sliceLexer) Next() (lexer.Token, error) {
	t := s.toks[s.i]
	if s.i < len(s.toks)-1 {
		s.i++
	}
	return t, nil
}

// c12State is the implementation under test side by side with the explicit model.
type c12State struct {
	pl     *lexer.PeekingLexer
	toks   []lexer.Token // incl. final EOF
	elided map[lexer.TokenType]bool
	raw    int // model: raw cursor

	cursors []lexer.RawCursor  // cursors returned by PeekAny so far
	mcurs   []int              // model's idea of them
	cps     []lexer.Checkpoint // saved checkpoints
	mcps    []int              // model raw cursor at save time

	ffOverElided, restored, atEOF bool
}

func newC12State(c *c12Case) (*c12State, string) {
	s := &c12State{elided: map[lexer.TokenType]bool{}}
	off := 0
	for _, t := range c.expanded() {
		s.toks = append(s.toks, lexer.Token{Type: lexer.TokenType(t.Type), Value: t.Value,
			Pos: lexer.Position{Filename: "f", Offset: off, Line: 1, Column: off + 1}})
		off += len(t.Value) + 1
	}
	s.toks = append(s.toks, lexer.EOFToken(lexer.Position{Filename: "f", Offset: off, Line: 1, Column: off + 1}))
	var el []lexer.TokenType
	for _, e := range c.Elide {
		el = append(el, lexer.TokenType(e))
		s.elided[lexer.TokenType(e)] = true
	}
	var err error
	if p := guard(func() { s.pl, err = lexer.Upgrade(&sliceLexer{toks: s.toks}, el...) }); p != "" {
		return nil, "Upgrade: " + p
	}
	for i := range el {
		el[i] = 12345 // the caller's slice is the caller's: the elision set was fixed when Upgrade returned
	}
	if err != nil {
		return nil, "Upgrade: " + err.Error()
	}
	return s, ""
}

// ---- model ----

func (s *c12State) mNextNE(r int) int {
	for ; ; r++ {
		if s.toks[r].EOF() || !s.elided[s.toks[r].Type] {
			return r
		}
	}
}

func (s *c12State) mCursor(r int) int {
	n := 0
	for i := 0; i < r; i++ {
		if !s.toks[i].EOF() && !s.elided[s.toks[i].Type] {
			n++
		}
	}
	return n
}

func c12Pred(op c12Op) func(lexer.Token) bool {
	switch op.Pred {
	case "type":
		return func(t lexer.Token) bool { return int(t.Type) == op.Arg }
	case "value":
		return func(t lexer.Token) bool { return t.Value == op.Str }
	case "true":
		return func(lexer.Token) bool { return true }
	default:
		return func(lexer.Token) bool { return false }
	}
}

// observe compares every observer with the model.
func (s *c12State) observe(when string) string { return s.observeMask(when, 15) }

// observeMask calls only the observers selected by mask: observing must not be a precondition of
// correct behaviour (an implementation that skips elided tokens lazily is only exposed if a step is
// NOT followed by a Peek).
func (s *c12State) observeMask(when string, mask int) string {
	var msg string
	if p := guard(func() {
		ne := s.mNextNE(s.raw)
		if mask&1 != 0 {
			if got := *s.pl.Peek(); got != s.toks[ne] {
				msg = fmt.Sprintf("%s: Peek() = %#v, model %#v (raw cursor %d)", when, got, s.toks[ne], s.raw)
				return
			}
		}
		if mask&2 != 0 {
			if got := *s.pl.RawPeek(); got != s.toks[s.raw] {
				msg = fmt.Sprintf("%s: RawPeek() = %#v, model %#v", when, got, s.toks[s.raw])
				return
			}
		}
		if mask&4 != 0 {
			if got := int(s.pl.RawCursor()); got != s.raw {
				msg = fmt.Sprintf("%s: RawCursor() = %d, model %d", when, got, s.raw)
				return
			}
		}
		if mask&8 != 0 {
			if got, want := s.pl.Cursor(), s.mCursor(s.raw); got != want {
				msg = fmt.Sprintf("%s: Cursor() = %d, model %d non-elided tokens consumed", when, got, want)
				return
			}
		}
	}); p != "" {
		return when + ": observer " + p
	}
	return msg
}

// step applies one operation to both sides.
func (s *c12State) step(i int, op c12Op) string {
	when := fmt.Sprintf("op %d %s", i, mustJSON(op))
	var msg string
	p := guard(func() {
		switch op.Op {
		case "Peek", "RawPeek", "Cursor":
			// pure observers: covered by observe()
		case "Next":
			ne := s.mNextNE(s.raw)
			want := s.toks[ne]
			got := *s.pl.Next()
			if want.EOF() {
				s.atEOF = true
			} else {
				s.raw = ne + 1
			}
			if got != want {
				msg = fmt.Sprintf("%s: Next() = %#v, model %#v", when, got, want)
			}
		case "PeekAny":
			pred := c12Pred(op)
			j := s.raw
			for ; ; j++ {
				t := s.toks[j]
				if t.EOF() || pred(t) || !s.elided[t.Type] {
					break
				}
			}
			if s.toks[j].EOF() {
				s.atEOF = true
			}
			before := s.pl.MakeCheckpoint()
			moved := ""
			calls := 0
			predPanicked := false
			wrapped := func(t lexer.Token) bool {
				calls++
				if op.Inspect && moved == "" {
					if now := s.pl.MakeCheckpoint(); now != before {
						moved = fmt.Sprintf("%s: while PeekAny runs its predicate (call %d) the lexer's state is %+v, it was %+v when PeekAny was called", when, calls, now, before)
					}
				}
				if op.PanicAt > 0 && calls == op.PanicAt {
					predPanicked = true
					panic("the predicate panics")
				}
				return pred(t)
			}
			var got lexer.Token
			var cur lexer.RawCursor
			returned := false
			func() {
				defer func() {
					if p := recover(); p != nil && !predPanicked {
						// not the predicate's panic: PeekAny itself went wrong (C12-r11m1: an elision set that holds
						// the EOF type and a predicate that refuses everything walked off the end of the stream)
						msg = fmt.Sprintf("%s: PeekAny panics: %v", when, p)
					}
				}()
				got, cur = s.pl.PeekAny(wrapped)
				returned = true
			}()
			if msg != "" {
				return
			}
			if moved != "" {
				msg = moved
				return
			}
			if !returned {
				// the predicate panicked and the caller recovered: nothing was observed, nothing may have moved (the
				// observers called after this step compare with the unchanged model)
				break
			}
			if got != s.toks[j] || int(cur) != j {
				msg = fmt.Sprintf("%s: PeekAny = (%#v, %d), model (%#v, %d)", when, got, cur, s.toks[j], j)
				return
			}
			s.cursors = append(s.cursors, cur)
			s.mcurs = append(s.mcurs, j)
		case "FastForward":
			if len(s.cursors) == 0 {
				return
			}
			k := op.Arg % len(s.cursors)
			target := s.mcurs[k]
			for r := s.raw; r <= target; r++ {
				if s.toks[r].EOF() {
					s.atEOF = true
					break
				}
				if s.elided[s.toks[r].Type] && r < target {
					s.ffOverElided = true
				}
				s.raw = r + 1
			}
			s.pl.FastForward(s.cursors[k])
		case "Range":
			n := len(s.toks)
			lo, hi := op.Arg%(n+1), op.Arg2%(n+1)
			if lo > hi {
				lo, hi = hi, lo
			}
			got := s.pl.Range(lexer.RawCursor(lo), lexer.RawCursor(hi))
			if len(got) != hi-lo {
				msg = fmt.Sprintf("%s: Range(%d,%d) has %d tokens", when, lo, hi, len(got))
				return
			}
			for x := range got {
				if got[x] != s.toks[lo+x] {
					msg = fmt.Sprintf("%s: Range(%d,%d)[%d] = %#v, want %#v", when, lo, hi, x, got[x], s.toks[lo+x])
					return
				}
			}
		case "MakeCheckpoint":
			s.cps = append(s.cps, s.pl.MakeCheckpoint())
			s.mcps = append(s.mcps, s.raw)
		case "LoadCheckpoint":
			if len(s.cps) == 0 {
				return
			}
			k := op.Arg % len(s.cps)
			s.pl.LoadCheckpoint(s.cps[k])
			if s.mcps[k] != s.raw {
				s.restored = true
			}
			s.raw = s.mcps[k]
		default:
			msg = "harness: unknown op " + op.Op
		}
	})
	if p != "" {
		return when + ": " + p
	}
	if msg != "" {
		return msg
	}
	return s.observeMask("after "+when, op.Obs)
}

func runC12Case(c *c12Case) (outcome, *c12State) {
	s, msg := newC12State(c)
	if msg != "" {
		return violationf("upgrade", "%s", msg), nil
	}
	if m := s.observe("after Upgrade"); m != "" {
		return violationf("observe", "%s", m), s
	}
	for i, op := range c.Ops {
		if m := s.step(i, op); m != "" {
			return violationf("step", "%s", m), s
		}
	}
	return outcome{}, s
}

const c12Rule = "rapid state machine: token stream of 0-30 tokens over 10 types (positive, negative, 64 apart; +EOF), any elision subset (optionally incl. EOF), " +
	"operation sequence over Peek/Next/RawPeek/PeekAny/FastForward/Range/MakeCheckpoint/LoadCheckpoint stepped " +
	"in lockstep with an explicit model (token slice + raw cursor), PeekAny predicates that may look at the lexer they are called from or panic (recovered by the caller), with a drawn subset of observers (possibly none) called after each step; non-trivial = the sequence contains a " +
	"FastForward that skips an elided token, a checkpoint restore that moves the cursor, and a call at EOF; " +
	"distinct by SHA-256 of (tokens, elision set, operations)"

var c12Types = []int{1, 2, 0, 3, 4, 65, 130, -2, -3, -66, -67}

func genC12Op(t *rapid.T, name string) c12Op {
	op := c12Op{Op: name, Obs: rapid.SampledFrom([]int{15, 15, 0, 0, 1, 2, 4, 8, 12, 3}).Draw(t, "obs")}
	switch name {
	case "PeekAny":
		op.Pred = rapid.SampledFrom([]string{"type", "type", "value", "false", "true"}).Draw(t, "pred")
		switch op.Pred {
		case "type":
			op.Arg = rapid.SampledFrom(c12Types).Draw(t, "ptype")
		case "value":
			op.Str = rapid.SampledFrom([]string{"a", "b", " ", "#"}).Draw(t, "pvalue")
		}
		op.Inspect = rapid.IntRange(0, 3).Draw(t, "inspect") == 0
		if rapid.IntRange(0, 5).Draw(t, "panics") == 0 {
			op.PanicAt = rapid.IntRange(1, 4).Draw(t, "panicat")
		}
	case "FastForward", "LoadCheckpoint":
		op.Arg = rapid.IntRange(0, 63).Draw(t, "idx")
	case "Range":
		op.Arg = rapid.IntRange(0, 63).Draw(t, "lo")
		op.Arg2 = rapid.IntRange(0, 63).Draw(t, "hi")
	}
	return op
}

func TestC12(t *testing.T) {
	var longOnce sync.Once
	runProp(t, "C12", c12Rule, func(t *rapid.T, r *vstat.Run) {
		longOnce.Do(func() {
			// runs of elided tokens longer than any 16-bit quantity (a comment block of tens of thousands of lines)
			for _, n := range []int{65535, 65536, 70000, 131073} {
				for _, at := range []int{0, 2} {
					c := &c12Case{Toks: []c12Tok{{1, "a"}, {3, "b"}, {1, "c"}}, Elide: []int{2}, LongRun: n, LongAt: at,
						Ops: []c12Op{{Op: "Peek", Obs: 15}, {Op: "Next", Obs: 15}, {Op: "Next", Obs: 15}, {Op: "Peek", Obs: 15}, {Op: "Next", Obs: 15}, {Op: "Next", Obs: 15}, {Op: "Peek", Obs: 15}}}
					o, _ := runC12Case(c)
					r.Eval()
					r.Count("long_elided_run_cases")
					report(t, r, o, c)
				}
			}
		})
		c := &c12Case{}
		n := rapid.IntRange(0, 30).Draw(t, "ntoks")
		if rapid.IntRange(0, 7).Draw(t, "longstream") == 0 {
			// streams longer than a machine word of per-token flags, with runs of one (possibly elided) type that end
			// at or next to a multiple of 64
			n = rapid.SampledFrom([]int{62, 63, 64, 65, 66, 127, 128, 129, 130, 200}).Draw(t, "nlong")
		}
		runType, runLeft := 0, 0
		for i := 0; i < n; i++ {
			ty := rapid.SampledFrom(c12Types).Draw(t, "type")
			if n > 30 {
				if runLeft == 0 && rapid.IntRange(0, 3).Draw(t, "run") == 0 {
					runType, runLeft = ty, rapid.SampledFrom([]int{2, 5, 31, 60, 63, 64, 65}).Draw(t, "runlen")
				}
				if runLeft > 0 {
					ty = runType
					runLeft--
				}
			}
			c.Toks = append(c.Toks, c12Tok{Type: ty, Value: rapid.SampledFrom([]string{"a", "b", " ", "#"}).Draw(t, "value")})
		}
		for _, ty := range c12Types {
			if rapid.IntRange(0, 2).Draw(t, "elide") == 0 {
				c.Elide = append(c.Elide, ty)
			}
		}
		if rapid.IntRange(0, 7).Draw(t, "elideEOF") == 0 {
			c.Elide = append(c.Elide, int(lexer.EOF)) // accepted by Upgrade; EOF must still end every scan
		}
		s, msg := newC12State(c)
		if msg != "" {
			report(t, r, violationf("upgrade", "%s", msg), c)
			return
		}
		if m := s.observe("after Upgrade"); m != "" {
			report(t, r, violationf("observe", "%s", m), c)
			return
		}
		stepFn := func(name string) func(*rapid.T) {
			return func(t *rapid.T) {
				op := genC12Op(t, name)
				c.Ops = append(c.Ops, op)
				if m := s.step(len(c.Ops)-1, op); m != "" {
					r.NoteFailure(m, "step", c)
					t.Fatalf("%s", m)
				}
			}
		}
		t.Repeat(map[string]func(*rapid.T){
			"Next": stepFn("Next"), "PeekAny": stepFn("PeekAny"), "FastForward": stepFn("FastForward"),
			"Range": stepFn("Range"), "MakeCheckpoint": stepFn("MakeCheckpoint"), "LoadCheckpoint": stepFn("LoadCheckpoint"),
			"Next2": stepFn("Next"), "PeekAny2": stepFn("PeekAny"), "FastForward2": stepFn("FastForward"),
		})
		r.Eval()
		r.Add("ops", int64(len(c.Ops)))
		if s.ffOverElided {
			r.Count("seq_with_fastforward_over_elided")
		}
		if s.restored {
			r.Count("seq_with_checkpoint_restore")
		}
		if s.atEOF {
			r.Count("seq_with_call_at_eof")
		}
		if len(c.Toks) == 0 {
			r.Count("empty_stream")
		}
		allElided := len(c.Toks) > 0
		for _, tk := range c.Toks {
			if !s.elided[lexer.TokenType(tk.Type)] {
				allElided = false
			}
		}
		if allElided {
			r.Count("all_elided_stream")
		}
		if s.ffOverElided && s.restored && s.atEOF {
			r.NonTrivial(mustJSON(c), func() any { return c })
		}
	})
}

func TestC12Replay(t *testing.T) {
	replayAll(t, "C12", func(raw json.RawMessage) outcome {
		var c c12Case
		if err := json.Unmarshal(raw, &c); err != nil {
			return violationf("harness", "bad replay: %v", err)
		}
		o, _ := runC12Case(&c)
		return o
	})
}
