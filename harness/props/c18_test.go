package props

import (
	"encoding/json"
	"fmt"
	"strconv"
	"strings"
	"testing"
	"unicode/utf8"

	"github.com/alecthomas/participle/v2"
	"github.com/alecthomas/participle/v2/lexer"
	"pgregory.net/rapid"

	"verifharness/vstat"
)

// ---- C18: token mappers transform exactly the selected tokens; Unquote inverts Go quoting ----

var c18Stateful = lexer.MustSimple([]lexer.SimpleRule{
	{Name: "String", Pattern: `"(\\.|[^"\\])*"`},
	{Name: "RawString", Pattern: "`[^`]*`"},
	{Name: "Char", Pattern: `'(\\.|[^'\\])*'`},
	{Name: "Ident", Pattern: `[\pL_]+`},
	{Name: "Int", Pattern: `[0-9]+`},
	{Name: "Punct", Pattern: `[-+;(),]`},
	{Name: "WS", Pattern: `\s+`},
})

type c18Grammar struct {
	Pos    lexer.Position
	EndPos lexer.Position
	V      []string `@(String | RawString | Char | Ident | Int)*`
}

type c18Mapper struct {
	Kind  string   `json:"kind"`  // unquote | upper | record
	Types []string `json:"types"` // empty: default (Unquote: String) / all tokens (record)
}

type c18Case struct {
	Lexer   string      `json:"lexer"` // scanner | stateful
	Mappers []c18Mapper `json:"mappers"`
	Items   []string    `json:"items"` // token texts, joined by Seps
	Seps    []string    `json:"seps"`
	ItemHex []string    `json:"items_hex,omitempty"`
	// Warm: before the input, the same parser lexes a text whose escape the mapper rejects (the failed call must not
	// leave anything behind)
	Warm bool `json:"warm,omitempty"`
	// Layered > 0: the first Layered mappers belong to one parser, the others to a second parser built over the
	// first one's lexer (Lexer(first.Lexer())): the inner mappers run first
	Layered int `json:"layered,omitempty"`
	// LexerLast: the Lexer option follows the mapper options (options name symbols; which lexer they belong to is
	// only known once all options have been given)
	LexerLast bool `json:"lexer_last,omitempty"`
}

// Option values are values: the same one may configure several parsers, over different lexers.
var c18SharedOptions = map[string]participle.Option{}

func c18SharedOption(m c18Mapper) participle.Option {
	key := m.Kind + "|" + strings.Join(m.Types, ",")
	if o, ok := c18SharedOptions[key]; ok {
		return o
	}
	var o participle.Option
	if m.Kind == "unquote" {
		o = participle.Unquote(m.Types...)
	} else {
		o = participle.Upper(m.Types...)
	}
	c18SharedOptions[key] = o
	return o
}

func (c *c18Case) input() string {
	var sb strings.Builder
	for i, it := range c.Items {
		if i < len(c.Seps) {
			sb.WriteString(c.Seps[i])
		}
		sb.WriteString(it)
	}
	return sb.String()
}

type seenTok struct {
	typ lexer.TokenType
	pos lexer.Position
}

func c18Def(name string) lexer.Definition {
	if name == "stateful" {
		return c18Stateful
	}
	return lexer.TextScannerLexer
}

const c18Rule = "strings s (rapid strings, raw bytes, escape mixes) quoted by strconv.Quote / QuoteToASCII / hand-assembled escapes (\\x, \\u, \\U, " +
	"octal, \\a..\\v, other quote), back-quoted when strconv.CanBackquote(s) (also with \\r), single-quoted runes, corrupted escapes, mixed with " +
	"identifiers/numbers; lexers: default text/scanner and a stateful one with permissive string rules and elided whitespace; 1-3 mapper " +
	"options per parser (Unquote / Upper with disjoint type selections, a recording Map), given before or after the Lexer option; oracle: strconv.Unquote(token text) for selected " +
	"literal tokens, strings.ToUpper for Upper, everything else and every position identical to the unmapped lexer's stream, the recorder " +
	"sees each non-EOF token of its types exactly once in stream order (elided included); an escape strconv rejects must give an error " +
	"located at that token, by Parser.Lex and identically by the three parse entry points; non-trivial = some selected literal contains a backslash, quote, newline, non-ASCII or invalid-UTF-8 escape; " +
	"distinct by SHA-256 of the case"

func typeName(def lexer.Definition, t lexer.TokenType) string {
	for n, v := range def.Symbols() {
		if v == t {
			return n
		}
	}
	return ""
}

func selected(m c18Mapper, name string) bool {
	if len(m.Types) == 0 {
		if m.Kind == "unquote" {
			return name == "String"
		}
		return true
	}
	for _, t := range m.Types {
		if t == name {
			return true
		}
	}
	return false
}

func checkC18(c *c18Case, r *vstat.Run) outcome {
	def := c18Def(c.Lexer)
	input := c.input()
	base := lexAll(def, "f", input)
	if base.err != nil || base.panicMsg != "" {
		if r != nil {
			r.Count("skipped_base_lexing_fails")
		}
		return outcome{}
	}
	// expected stream
	type exp struct {
		tok    lexer.Token
		failed bool // a selected Unquote must fail here
	}
	var want []exp
	firstFail := -1
	nontrivial := false
	undecided := false
	for i, tk := range base.toks {
		e := exp{tok: tk}
		name := typeName(def, tk.Type)
		if !tk.EOF() {
			for _, m := range c.Mappers {
				if !selected(m, name) {
					continue
				}
				switch m.Kind {
				case "upper":
					e.tok.Value = strings.ToUpper(e.tok.Value)
				case "unquote":
					v := e.tok.Value
					if len(v) < 2 || (v[0] != '"' && v[0] != '\'' && v[0] != '`') || v[len(v)-1] != v[0] {
						undecided = true // not a quoted literal: applying Unquote to it is outside the statement
						continue
					}
					u, err := strconv.Unquote(v)
					switch {
					case err == nil:
						e.tok.Value = u
						if strings.ContainsAny(v[1:len(v)-1], "\\\"'\n") || !isASCII(v) {
							nontrivial = true
						}
					case v[0] == '\'' && singleQuotedIsString(v):
						undecided = true // 'abc': not a Go literal, not an invalid escape either
					default:
						e.failed = true
						nontrivial = true
						if firstFail < 0 {
							firstFail = i
						}
					}
				}
			}
		}
		want = append(want, e)
	}
	if undecided {
		if r != nil {
			r.Count("skipped_unquote_applied_to_non_go_literal")
		}
		return outcome{}
	}
	// build the mapped parser
	var seen []seenTok
	opts := []participle.Option{participle.Lexer(def)}
	if c.Lexer == "stateful" {
		opts = append(opts, participle.Elide("WS"))
	}
	for _, m := range c.Mappers {
		switch m.Kind {
		case "unquote", "upper":
			opts = append(opts, c18SharedOption(m))
		case "record":
			opts = append(opts, participle.Map(func(t lexer.Token) (lexer.Token, error) {
				seen = append(seen, seenTok{t.Type, t.Pos})
				return t, nil
			}, m.Types...))
		}
	}
	var p *participle.Parser[c18Grammar]
	var err error
	if pm := guard(func() {
		if c.Layered > 0 && c.Layered < len(c.Mappers) {
			// opts[0] is the lexer (opts[1] the elision, for the stateful lexer); then one option per mapper
			first := len(opts) - len(c.Mappers) + c.Layered
			var inner *participle.Parser[c18Grammar]
			inner, err = participle.Build[c18Grammar](opts[:first]...)
			if err != nil {
				return
			}
			outer := []participle.Option{participle.Lexer(inner.Lexer())}
			if c.Lexer == "stateful" {
				outer = append(outer, participle.Elide("WS"))
			}
			p, err = participle.Build[c18Grammar](append(outer, opts[first:]...)...)
			return
		}
		if c.LexerLast {
			opts = append(append([]participle.Option{}, opts[1:]...), opts[0])
		}
		p, err = participle.Build[c18Grammar](opts...)
	}); pm != "" || err != nil {
		return violationf("build", "Build failed: %v %s\ncase %s", err, pm, mustJSON(c))
	}
	if c.Warm {
		_ = guard(func() {
			_, _ = p.Lex("w", strings.NewReader(`first "\ud800" last`))
			_, _ = p.ParseString("w", `x '\400' y`)
		})
		seen = nil
	}
	var got []lexer.Token
	var lerr error
	if pm := guard(func() { got, lerr = p.Lex("f", strings.NewReader(input)) }); pm != "" {
		return violationf("panic", "Parser.Lex panicked: %s\ninput %q mappers %s", pm, input, mustJSON(c.Mappers))
	}
	if r != nil {
		r.Eval()
		r.Count("lexer_" + c.Lexer)
		for _, m := range c.Mappers {
			r.Count("mapper_" + m.Kind)
		}
		if firstFail >= 0 {
			r.Count("case_with_rejected_escape")
		}
		if nontrivial {
			r.NonTrivial(mustJSON(c), func() any { return c })
		}
	}
	desc := fmt.Sprintf("lexer %s mappers %s input %q", c.Lexer, mustJSON(c.Mappers), input)
	if firstFail >= 0 {
		if lerr == nil {
			return violationf("no-error", "%s: token %q has an escape strconv rejects but no error was reported (got %d tokens)", desc, base.toks[firstFail].Value, len(got))
		}
		pos, ok := errPos(lerr)
		tk := base.toks[firstFail]
		if !ok || pos.Offset < tk.Pos.Offset || pos.Offset > tk.Pos.Offset+len(tk.Value) {
			return violationf("error-pos", "%s: error %q is not located at the offending token %q at %v", desc, lerr, tk.Value, tk.Pos)
		}
		// the parse entry points report the same located error (the mapper runs while they collect the tokens)
		for _, entry := range []string{"ParseString", "ParseBytes", "Parse"} {
			var perr error
			if pm := guard(func() {
				switch entry {
				case "ParseBytes":
					_, perr = p.ParseBytes("f", []byte(input))
				case "Parse":
					_, perr = p.Parse("f", strings.NewReader(input))
				default:
					_, perr = p.ParseString("f", input)
				}
			}); pm != "" {
				return violationf("panic", "%s: %s panicked: %s", desc, entry, pm)
			}
			if perr == nil {
				return violationf("no-error", "%s: token %q has an escape strconv rejects but %s reported no error", desc, tk.Value, entry)
			}
			ppos, ok := errPos(perr)
			if !ok || ppos != pos || perr.Error() != lerr.Error() {
				return violationf("error-pos", "%s: %s reports %q (position %v), Parser.Lex reports %q (position %v) for the offending token %q at %v", desc, entry, perr, ppos, lerr, pos, tk.Value, tk.Pos)
			}
		}
		return outcome{}
	}
	if lerr != nil {
		return violationf("spurious-error", "%s: unexpected error %v", desc, lerr)
	}
	if len(got) != len(want) {
		return violationf("stream", "%s: mapped stream has %d tokens, unmapped %d", desc, len(got), len(want))
	}
	for i := range got {
		if got[i] != want[i].tok {
			return violationf("stream", "%s: token %d is %#v, want %#v (unmapped token %#v)", desc, i, got[i], want[i].tok, base.toks[i])
		}
	}
	// recorder: every non-EOF token of its types exactly once, in order, elided ones included
	for _, m := range c.Mappers {
		if m.Kind != "record" {
			continue
		}
		var wantSeen []seenTok
		for _, tk := range base.toks {
			if !tk.EOF() && selected(m, typeName(def, tk.Type)) {
				wantSeen = append(wantSeen, seenTok{tk.Type, tk.Pos})
			}
		}
		var gotSeen []seenTok
		for _, s := range seen {
			if s.typ != lexer.EOF {
				gotSeen = append(gotSeen, s)
			}
		}
		if fmt.Sprint(gotSeen) != fmt.Sprint(wantSeen) {
			return violationf("recorder", "%s: the Map function saw %v, want each selected non-EOF token once in stream order: %v", desc, gotSeen, wantSeen)
		}
		break // one recorder per case
	}
	// the parse captures exactly the mapped values of the non-elided tokens
	var wantVals []string
	parseable := true
	for _, e := range want {
		name := typeName(def, e.tok.Type)
		if e.tok.EOF() || name == "WS" {
			continue
		}
		switch name {
		case "String", "RawString", "Char", "Ident", "Int":
			wantVals = append(wantVals, e.tok.Value)
		default:
			parseable = false
		}
	}
	// through every entry point (the mappers sit between the lexer definition and the parser whichever one is used)
	for _, entry := range []string{"ParseString", "ParseBytes", "Parse"} {
		seen = nil
		var ast *c18Grammar
		var perr error
		if pm := guard(func() {
			switch entry {
			case "ParseBytes":
				ast, perr = p.ParseBytes("f", []byte(input))
			case "Parse":
				ast, perr = p.Parse("f", strings.NewReader(input))
			default:
				ast, perr = p.ParseString("f", input)
			}
		}); pm != "" {
			return violationf("panic", "%s: %s panicked: %s", desc, entry, pm)
		}
		if parseable {
			if perr != nil {
				return violationf("parse", "%s: %s failed: %v", desc, entry, perr)
			}
			if strings.Join(ast.V, "\x00") != strings.Join(wantVals, "\x00") || len(ast.V) != len(wantVals) {
				return violationf("captured", "%s: %s captured %q, want %q", desc, entry, ast.V, wantVals)
			}
			// positions are the lexer's, whatever the mappers made of the token texts: the node ends where the next
			// raw token of the unmapped stream begins
			last := -1
			for i, tk := range base.toks {
				if !tk.EOF() && typeName(def, tk.Type) != "WS" {
					last = i
				}
			}
			if last >= 0 && last+1 < len(base.toks) {
				if wantEnd := base.toks[last+1].Pos; ast.EndPos != wantEnd {
					return violationf("node-pos", "%s: %s: the node's EndPos is %v, the token after its last one starts at %v", desc, entry, ast.EndPos, wantEnd)
				}
			}
		}
	}
	return outcome{}
}

func isASCII(s string) bool {
	for i := 0; i < len(s); i++ {
		if s[i] >= utf8.RuneSelf {
			return false
		}
	}
	return true
}

// singleQuotedIsString: a single-quoted text that holds several characters with valid escapes
// (participle treats it as a string; Go does not know such literals).
func singleQuotedIsString(v string) bool {
	s := v[1 : len(v)-1]
	n := 0
	for s != "" {
		_, _, tail, err := strconv.UnquoteChar(s, '\'')
		if err != nil {
			return false
		}
		s = tail
		n++
	}
	return n != 1
}

var c18Escapes = []string{`\n`, `\t`, `\\`, `\"`, `\'`, `\a`, `\b`, `\f`, `\r`, `\v`, `\x00`, `\x41`, `\xff`, `\xe9`, `\u00e9`, `\u65e5`, `\U0001F600`, `\101`, `\377`, `\000`}
var c18BadEscapes = []string{`\q`, `\x4`, `\xZZ`, `\u12`, `\U0011FFFF`, `\400`, `\8`, `\ `, `\ud800`}

func genLiteral(t *rapid.T) (string, bool) {
	switch rapid.IntRange(0, 9).Draw(t, "lk") {
	case 0, 1:
		s := rapid.String().Draw(t, "s")
		return strconv.Quote(s), true
	case 2:
		b := rapid.SliceOfN(rapid.Byte(), 0, 8).Draw(t, "bytes")
		return strconv.Quote(string(b)), true
	case 3:
		s := rapid.StringOf(rapid.RuneFrom([]rune("aé日\n\t\"'\\`\r x"))).Draw(t, "s2")
		return strconv.QuoteToASCII(s), true
	case 4:
		// hand-assembled escape mix inside double quotes
		n := rapid.IntRange(0, 5).Draw(t, "ne")
		var sb strings.Builder
		sb.WriteByte('"')
		for i := 0; i < n; i++ {
			if rapid.Bool().Draw(t, "esc") {
				e := rapid.SampledFrom(c18Escapes).Draw(t, "e")
				if e == `\'` {
					e = "'"
				}
				sb.WriteString(e)
			} else {
				sb.WriteString(rapid.SampledFrom([]string{"a", "é", "日", " ", "'", "x1"}).Draw(t, "plain"))
			}
		}
		sb.WriteByte('"')
		return sb.String(), true
	case 5, 6:
		s := rapid.StringOf(rapid.RuneFrom([]rune("aé日\n\t\"'\\ x\rn"))).Draw(t, "raw")
		if strings.ContainsRune(s, '`') {
			s = strings.ReplaceAll(s, "`", "")
		}
		return "`" + s + "`", true
	case 7:
		r := rapid.RuneFrom([]rune("aé日\n\t\"'\\\x00")).Draw(t, "rune")
		return strconv.QuoteRune(r), true
	case 8:
		// corrupted escape
		e := rapid.SampledFrom(c18BadEscapes).Draw(t, "bad")
		q := rapid.SampledFrom([]string{`"`, `'`}).Draw(t, "q")
		return q + "a" + e + q, true
	default:
		// words (incl. letters whose upper case differs from their title case, and scripts with their own upper case),
		// numbers and punctuation (tokens without a symbol name under the text/scanner lexer)
		return rapid.SampledFrom([]string{"abc", "é", "x", "42", "0", "Foo", "_y", "ǆx", "ǳa", "ǅ", "ნი", "ſt", ";", "(", ",", "+", "-"}).Draw(t, "word"), false
	}
}

func TestC18(t *testing.T) {
	runProp(t, "C18", c18Rule, func(t *rapid.T, r *vstat.Run) {
		c := &c18Case{Lexer: rapid.SampledFrom([]string{"scanner", "stateful", "stateful"}).Draw(t, "lexer")}
		n := rapid.IntRange(1, 5).Draw(t, "n")
		for i := 0; i < n; i++ {
			lit, _ := genLiteral(t)
			c.Items = append(c.Items, lit)
			sep := " "
			if i == 0 {
				sep = rapid.SampledFrom([]string{"", "", " ", "\n"}).Draw(t, "lead")
			} else {
				sep = rapid.SampledFrom([]string{" ", "  ", "\n", " \t"}).Draw(t, "sep")
			}
			c.Seps = append(c.Seps, sep)
		}
		if c.Lexer == "scanner" && rapid.IntRange(0, 5).Draw(t, "ctrl") == 0 {
			// a raw control character is a token of its own under the text/scanner lexer; its type is the character
			// (+1 .. +8), the mirror image of the symbolic types -1 .. -8
			at := rapid.IntRange(0, len(c.Items)).Draw(t, "ctrlat")
			ch := string(rune(rapid.IntRange(1, 8).Draw(t, "ctrlchar")))
			c.Items = append(c.Items[:at:at], append([]string{ch}, c.Items[at:]...)...)
			c.Seps = append(c.Seps[:at:at], append([]string{" "}, c.Seps[at:]...)...)
		}
		// mappers: disjoint selections for Unquote and Upper, optionally a recorder
		lits := []string{"String", "RawString", "Char"}
		switch rapid.IntRange(0, 5).Draw(t, "mk") {
		case 0:
			c.Mappers = append(c.Mappers, c18Mapper{Kind: "unquote"})
		case 1:
			c.Mappers = append(c.Mappers, c18Mapper{Kind: "unquote", Types: lits})
		case 2:
			var ts []string
			for _, l := range lits {
				if rapid.Bool().Draw(t, "sel") {
					ts = append(ts, l)
				}
			}
			if len(ts) == 0 {
				ts = []string{"RawString"}
			}
			c.Mappers = append(c.Mappers, c18Mapper{Kind: "unquote", Types: ts})
		case 3:
			c.Mappers = append(c.Mappers, c18Mapper{Kind: "upper", Types: []string{"Ident"}})
			if rapid.IntRange(0, 3).Draw(t, "upperall") == 0 {
				c.Mappers[len(c.Mappers)-1].Types = nil // no selection: every token
			}
		case 4:
			c.Mappers = append(c.Mappers, c18Mapper{Kind: "upper", Types: []string{"Ident"}}, c18Mapper{Kind: "unquote", Types: lits})
		default:
			c.Mappers = append(c.Mappers, c18Mapper{Kind: "unquote", Types: []string{"String", "Char"}}, c18Mapper{Kind: "upper", Types: []string{"Ident", "RawString"}})
		}
		if rapid.IntRange(0, 2).Draw(t, "rec") == 0 {
			rec := c18Mapper{Kind: "record"}
			switch rapid.IntRange(0, 2).Draw(t, "rect") {
			case 1:
				rec.Types = []string{"Ident"}
			case 2:
				if c.Lexer == "stateful" {
					rec.Types = []string{"WS", "String"}
				} else {
					rec.Types = []string{"String", "Int"}
				}
			}
			at := rapid.IntRange(0, len(c.Mappers)).Draw(t, "recat")
			c.Mappers = append(c.Mappers[:at:at], append([]c18Mapper{rec}, c.Mappers[at:]...)...)
		}
		// the same body in another quoting style: a double-quoted literal with a backslash, and that very text
		// between back-quotes (where the backslash stands for itself)
		if rapid.IntRange(0, 5).Draw(t, "twin") == 0 {
			for _, it := range c.Items {
				if len(it) > 2 && it[0] == '"' && strings.Contains(it, "\\") && !strings.ContainsAny(it[1:len(it)-1], "`\n\r") {
					twin := "`" + it[1:len(it)-1] + "`"
					if rapid.Bool().Draw(t, "twinfirst") {
						c.Items = append([]string{twin}, c.Items...)
						c.Seps = append([]string{""}, c.Seps...)
						c.Seps[1] = " "
					} else {
						c.Items = append(c.Items, twin)
						c.Seps = append(c.Seps, " ")
					}
					break
				}
			}
		}
		c.Warm = rapid.IntRange(0, 3).Draw(t, "warm") == 0
		if len(c.Mappers) >= 2 && rapid.IntRange(0, 3).Draw(t, "layered") == 0 {
			c.Layered = rapid.IntRange(1, len(c.Mappers)-1).Draw(t, "layeredat")
		}
		if rapid.IntRange(0, 7).Draw(t, "overlap") == 0 {
			// two mappers on the same tokens, in two layers: unquote below, upper-case above
			c.Mappers = []c18Mapper{{Kind: "unquote", Types: []string{"String", "Char"}}, {Kind: "upper", Types: []string{"String", "Ident"}}}
			c.Layered = 1
		}
		c.LexerLast = c.Layered == 0 && rapid.IntRange(0, 2).Draw(t, "lexerlast") == 0
		for _, it := range c.Items {
			c.ItemHex = append(c.ItemHex, fmt.Sprintf("%x", it))
		}
		report(t, r, checkC18(c, r), c)
	})
}

func TestC18Replay(t *testing.T) {
	replayAll(t, "C18", func(raw json.RawMessage) outcome {
		var c c18Case
		if err := json.Unmarshal(raw, &c); err != nil {
			return violationf("harness", "bad replay: %v", err)
		}
		if len(c.ItemHex) == len(c.Items) {
			for i, h := range c.ItemHex {
				lc := lexCase{InputHex: h}
				lc.fix()
				if h != "" {
					c.Items[i] = lc.Input
				}
			}
		}
		return checkC18(&c, nil)
	})
}
