package props

import (
	"sort"

	"github.com/alecthomas/participle/v2/lexer"
	"pgregory.net/rapid"

	"verifharness/fixtures"
	"verifharness/lexgen"
)

// ruleSetOf converts the (include-expanded) rules of a runtime definition into the harness IR, so
// that the realistic lexers of the ported examples run through the same oracles as generated ones.
func ruleSetOf(def *lexer.StatefulDefinition) *lexgen.RuleSet {
	rules := def.Rules()
	names := make([]string, 0, len(rules))
	for n := range rules {
		if n != "Root" {
			names = append(names, n)
		}
	}
	sort.Strings(names)
	names = append([]string{"Root"}, names...)
	rs := &lexgen.RuleSet{}
	for _, n := range names {
		st := lexgen.StateSpec{Name: n}
		for _, r := range rules[n] {
			spec := lexgen.RuleSpec{Name: r.Name, Pattern: r.Pattern}
			switch a := r.Action.(type) {
			case lexer.ActionPush:
				spec.Action, spec.Target = "push", a.State
			case lexer.ActionPop:
				spec.Action = "pop"
			case nil:
				if r == lexer.ReturnRule {
					spec = lexgen.RuleSpec{Action: "return"}
				}
			}
			st.Rules = append(st.Rules, spec)
		}
		rs.States = append(rs.States, st)
	}
	return rs
}

var fixtureRuleSets = func() map[string]*lexgen.RuleSet {
	out := map[string]*lexgen.RuleSet{}
	for name, def := range fixtures.Lexers() {
		out[name] = ruleSetOf(def)
	}
	return out
}()

var fixtureLexNames = func() []string {
	var ns []string
	for n := range fixtureRuleSets {
		if fixtures.Get(n) != nil { // nil: the example's grammar did not build (fixtures.BuildFailures)
			ns = append(ns, n)
		}
	}
	sort.Strings(ns)
	return ns
}()

// drawFixtureLexCase picks a realistic lexer and a mutated sample input of its grammar.
func drawFixtureLexCase(t *rapid.T) (*lexgen.RuleSet, string) {
	name := rapid.SampledFrom(fixtureLexNames).Draw(t, "fixturelexer")
	f := fixtures.Get(name)
	base := []byte(f.Samples[rapid.IntRange(0, len(f.Samples)-1).Draw(t, "sample")])
	in, _ := mutateBytes(t, base)
	return fixtureRuleSets[name], string(in)
}
