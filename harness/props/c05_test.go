package props

import (
	"encoding/hex"
	"encoding/json"
	"fmt"
	"os"
	"path/filepath"
	"sort"
	"testing"

	"pgregory.net/rapid"

	"verifharness/lexgen"
	"verifharness/srcgen"
	"verifharness/vstat"
)

// ---- C05 emit stage: generate definitions + inputs, run the generator binary, write the package ----

var c05RuleOpts = lexgen.RuleOpts{NoBackrefs: true, NoNullable: true, IdentNames: true, Pat: lexgen.PatOpts{NoLazy: true}}

type c05Batch struct {
	RS     *lexgen.RuleSet
	Inputs []string
}

func genC05Def(seed int, inputs int) *c05Batch {
	g := rapid.Custom(func(t *rapid.T) *c05Batch {
		o := c05RuleOpts
		o.AllowUnderflow = rapid.IntRange(0, 5).Draw(t, "underflow") == 0
		gen := lexgen.GenRuleSet(t, o)
		b := &c05Batch{RS: gen.RS}
		for i := 0; i < inputs; i++ {
			b.Inputs = append(b.Inputs, gen.GenInput(t))
		}
		return b
	})
	return g.Example(seed)
}

// supported double-checks the documented class on the regexp/syntax tree (the generator's own view).
func c05Supported(rs *lexgen.RuleSet) bool {
	for _, st := range rs.States {
		for _, r := range st.Rules {
			if r.Action == "include" || r.Action == "return" {
				continue
			}
			if lexgen.CanMatchEmpty(r.Pattern) || lexgen.HasNonGreedy(r.Pattern) {
				return false
			}
		}
	}
	return true
}

func TestC05Emit(t *testing.T) {
	work := os.Getenv("VERIF_WORK")
	genBin := os.Getenv("VERIF_GENBIN")
	if work == "" || genBin == "" {
		t.Skip("emit stage is driven by bin/check")
	}
	n := vstat.EnvInt("VERIF_C05_DEFS", 40)
	inputs := vstat.EnvInt("VERIF_C05_INPUTS", 150)
	seed := vstat.EnvInt("VERIF_SEED", 1)
	var defs []*srcgen.C05Def
	if rp := os.Getenv("VERIF_C05_REPLAY"); rp != "" {
		// replay mode: definitions and inputs come from saved cases
		files, _ := filepath.Glob(filepath.Join(rp, "*.json"))
		if fi, err := os.Stat(rp); err == nil && !fi.IsDir() {
			files = []string{rp}
		}
		sort.Strings(files)
		for i, f := range files {
			fl, err := loadFailure(f)
			if err != nil {
				continue
			}
			var c srcgen.C05Case
			if err := json.Unmarshal(fl.Case, &c); err != nil || c.RS == nil {
				continue
			}
			defs = append(defs, &srcgen.C05Def{ID: i, RS: c.RS, InputHex: []string{c.InputHex}})
		}
	} else {
		for i := 0; len(defs) < n && i < 4*n; i++ {
			b := genC05Def(seed*100000+i, inputs)
			if !c05Supported(b.RS) {
				continue
			}
			if _, rej := newDef(b.RS); rej != "" {
				continue
			}
			d := &srcgen.C05Def{ID: len(defs), RS: b.RS}
			for _, in := range b.Inputs {
				d.InputHex = append(d.InputHex, hex.EncodeToString([]byte(in)))
			}
			defs = append(defs, d)
		}
	}
	if err := srcgen.EmitC05(filepath.Join(work, "c05pkg"), "c05pkg", genBin, defs); err != nil {
		t.Fatalf("harness: emit failed: %v", err)
	}
	fmt.Printf("EMITTED %d definitions\n", len(defs))
}

// TestC05Replay: saved C05 cases need the compile stage; bin/check replays them through the emit
// pipeline (VERIF_C05_REPLAY). This entry only reports the known findings of the property.
func TestC05Replay(t *testing.T) {
	replayAll(t, "C05-none", func(raw json.RawMessage) outcome { return outcome{} })
	r := vstat.For("C05")
	sigs := r.KnownSigs()
	for k, v := range sigs {
		fmt.Printf("KNOWN-FINDING: property=C05 sig=%s %s\n", k, v)
	}
}
