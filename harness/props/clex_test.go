package props

import (
	"encoding/hex"
	"encoding/json"
	"fmt"
	"reflect"
	"runtime/debug"
	"sort"
	"strings"
	"sync"
	"testing"

	"github.com/alecthomas/participle/v2/lexer"
	"pgregory.net/rapid"

	"verifharness/lexgen"
	"verifharness/vstat"
)

type lexCase struct {
	RS        *lexgen.RuleSet `json:"rules"`
	Input     string          `json:"input"`
	InputHex  string          `json:"input_hex,omitempty"` // set when the input is not valid UTF-8 (JSON cannot carry it)
	ExtraNext int             `json:"extra_next,omitempty"`
	Text      string          `json:"rules_text,omitempty"`
	// C03: several inputs (hex) whose lexers are alive at the same time and advanced in turns
	InputsHex []string `json:"inputs_hex,omitempty"`
}

func (c *lexCase) fix() {
	if c.InputHex != "" {
		if b, err := hex.DecodeString(c.InputHex); err == nil {
			c.Input = string(b)
		}
	}
}

func newLexCase(rs *lexgen.RuleSet, in string) *lexCase {
	c := &lexCase{RS: rs, Input: in}
	if strings.ToValidUTF8(in, "\uFFFD") != in || strings.Contains(in, "\uFFFD") {
		c.InputHex = fmt.Sprintf("%x", in)
	}
	return c
}

func sampleLex(c *lexCase) func() any {
	return func() any {
		cc := *c
		cc.Text = c.RS.String()
		return cc
	}
}

// newDef builds the runtime lexer; rejected != "" when the constructor does not accept the rules.
func newDef(rs *lexgen.RuleSet) (def *lexer.StatefulDefinition, rejected string) {
	var err error
	if p := guard(func() { def, err = lexer.New(rs.ToRules()) }); p != "" {
		return nil, "constructor panicked: " + p
	}
	if err != nil {
		return nil, err.Error()
	}
	return def, ""
}

type lexRun struct {
	toks     []lexer.Token
	err      error
	panicMsg string
}

func lexAll(def lexer.Definition, filename, in string) lexRun {
	var r lexRun
	r.panicMsg = guard(func() {
		var l lexer.Lexer
		if sd, ok := def.(lexer.StringDefinition); ok {
			l, r.err = sd.LexString(filename, in)
		} else {
			l, r.err = def.Lex(filename, strings.NewReader(in))
		}
		if r.err != nil {
			return
		}
		for {
			var tk lexer.Token
			tk, r.err = l.Next()
			if r.err != nil {
				return
			}
			r.toks = append(r.toks, tk)
			if tk.EOF() {
				return
			}
			if len(r.toks) > len(in)+8 {
				r.err = fmt.Errorf("harness: more tokens than input bytes (no progress?)")
				return
			}
		}
	})
	return r
}

func errPos(err error) (lexer.Position, bool) {
	type positioned interface{ Position() lexer.Position }
	if p, ok := err.(positioned); ok {
		return p.Position(), true
	}
	return lexer.Position{}, false
}

// ---------------------------------------------------------------------------------------------
// C03: the stateful lexer emits exactly the tokens its rules define

const c03Rule = "generated rule sets (1-4 states, <=6 rules per state, Push/Pop/Return/Include (acyclic, any index), shared rule names, " +
	"lower-case rules, overlapping patterns from a regexp-AST generator, back-references \\0..\\3 in pushed states) x inputs concatenated " +
	"from strings sampled from the patterns, noise, repeats and truncations (multi-byte and invalid UTF-8 included); oracle: independent " +
	"reference lexer (token name/text/offset; error iff the reference stops, at the same offset/line/column); non-trivial = >=2 states " +
	"visited, or >=2 rules matched at one offset, or a back-reference was expanded, or a rule was reached through an include; distinct by " +
	"SHA-256 of (rules, input)"

func checkC03(c *lexCase, def *lexer.StatefulDefinition, r *vstat.Run) outcome {
	ref := lexgen.RefLex(c.RS, c.Input)
	if ref.Underflow || ref.NonPart || ref.Inexpress {
		if r != nil {
			switch {
			case ref.Underflow:
				r.Count("skipped_pop_or_return_in_initial_state(C07)")
			case ref.NonPart:
				r.Count("skipped_non_participating_group(C07)")
			default:
				r.Count("skipped_backref_text_not_expressible(O2)")
			}
		}
		return outcome{}
	}
	run := lexAll(def, "f", c.Input)
	if r != nil {
		r.Eval()
		nt := false
		if ref.StatesSeen >= 2 || ref.Pushes > 0 {
			r.Count("multi_state")
			nt = true
		}
		if ref.MultiCand > 0 {
			r.Count("several_rules_match_at_one_offset")
			nt = true
		}
		if ref.ShortFirst > 0 {
			r.Count("first_match_shorter_than_a_later_candidate")
		}
		if ref.Backrefs > 0 {
			r.Count("backreference_expanded")
			nt = true
		}
		if ref.BackrefMeta > 0 {
			r.Count("backreferenced_text_has_regex_metacharacters")
		}
		if ref.Includes > 0 {
			r.Count("rule_reached_through_include")
			nt = true
		}
		if ref.Returns > 0 {
			r.Count("return_taken")
		}
		if ref.Elided > 0 {
			r.Count("lower_case_rule_matched")
		}
		if ref.AnchorAfter > 0 {
			r.Count("anchor_or_word_boundary_tried_after_word_char")
		}
		if ref.ErrOff >= 0 {
			r.Count("reference_stops_with_error")
		}
		if nt {
			r.NonTrivial(mustJSON(c), sampleLex(c))
		}
	}
	desc := func() string { return fmt.Sprintf("input %q\n%s", c.Input, c.RS.String()) }
	if run.panicMsg != "" {
		return violationf("panic", "lexer panicked where the rules define a result: %s\n%s", run.panicMsg, desc())
	}
	if ref.ErrOff >= 0 {
		if run.err == nil {
			return violationf("no-error", "lexing succeeded (%d tokens) but the rules define an error at offset %d (%s)\n%s", len(run.toks), ref.ErrOff, ref.ErrWhy, desc())
		}
		pos, ok := errPos(run.err)
		if !ok {
			return violationf("error-pos", "error without position: %v\n%s", run.err, desc())
		}
		if pos.Offset != ref.ErrOff || pos.Line != ref.ErrLine || pos.Column != ref.ErrCol {
			return violationf("error-pos", "error %q at offset %d (%d:%d), the rules define it at offset %d (%d:%d: %s)\n%s", run.err, pos.Offset, pos.Line, pos.Column, ref.ErrOff, ref.ErrLine, ref.ErrCol, ref.ErrWhy, desc())
		}
		// tokens before the error must agree as well
		if m := compareToks(def, run.toks, ref.Toks, false); m != "" {
			return violationf("tokens", "tokens before the error differ: %s\n%s", m, desc())
		}
		return outcome{}
	}
	if run.err != nil {
		return violationf("spurious-error", "unexpected error %q; the rules define %d tokens\n%s", run.err, len(ref.Toks), desc())
	}
	if m := compareToks(def, run.toks, ref.Toks, true); m != "" {
		return violationf("tokens", "%s\n%s", m, desc())
	}
	return outcome{}
}

func compareToks(def lexer.Definition, got []lexer.Token, want []lexgen.RTok, whole bool) string {
	syms := lexer.SymbolsByRune(def)
	if _, ok := syms[lexer.EOF]; !ok {
		syms[lexer.EOF] = "EOF" // a rule of that name has taken the symbol's place in the table
	}
	if whole && len(got) != len(want) {
		return fmt.Sprintf("%d tokens, the rules define %d\n got  %s\n want %s", len(got), len(want), fmtLexToks(syms, got), fmtRToks(want))
	}
	if !whole && len(got) != len(want) {
		return fmt.Sprintf("%d tokens before the error, the rules define %d\n got  %s\n want %s", len(got), len(want), fmtLexToks(syms, got), fmtRToks(want))
	}
	for i, tk := range got {
		w := want[i]
		if syms[tk.Type] != w.Name || tk.Value != w.Value || tk.Pos.Offset != w.Off {
			return fmt.Sprintf("token %d is %s %q@%d, the rules define %s %q@%d\n got  %s\n want %s", i, syms[tk.Type], tk.Value, tk.Pos.Offset, w.Name, w.Value, w.Off, fmtLexToks(syms, got), fmtRToks(want))
		}
	}
	return ""
}

func fmtLexToks(syms map[lexer.TokenType]string, ts []lexer.Token) string {
	var sb strings.Builder
	for _, t := range ts {
		fmt.Fprintf(&sb, "%s%q@%d ", syms[t.Type], t.Value, t.Pos.Offset)
	}
	return sb.String()
}

func fmtRToks(ts []lexgen.RTok) string {
	var sb strings.Builder
	for _, t := range ts {
		fmt.Fprintf(&sb, "%s%q@%d ", t.Name, t.Value, t.Off)
	}
	return sb.String()
}

func TestC03(t *testing.T) { runProp(t, "C03", c03Rule, propC03) }

func FuzzC03(f *testing.F) { fuzzProp(f, "C03", propC03) }

func propC03(t *rapid.T, r *vstat.Run) {
	{
		if rapid.IntRange(0, 7).Draw(t, "realistic") == 0 {
			rs, in := drawFixtureLexCase(t)
			if def, rej := newDef(rs); rej == "" {
				r.Count("realistic_example_lexer")
				c := newLexCase(rs, in)
				report(t, r, checkC03(c, def, r), c)
			}
			return
		}
		if rapid.IntRange(0, 9).Draw(t, "brfamily") == 0 {
			// several entries into one back-referencing state per definition, with colliding group texts
			rs, input := lexgen.GenBackrefFamily(t)
			def, rej := newDef(rs)
			if rej != "" {
				r.Count("definition_rejected_by_constructor")
				return
			}
			r.Count("backreference_family_definitions")
			for i := 0; i < 8; i++ {
				c := newLexCase(rs, input(t))
				report(t, r, checkC03(c, def, r), c)
			}
			return
		}
		g := lexgen.GenRuleSet(t, lexgen.RuleOpts{})
		def, rej := newDef(g.RS)
		if rej != "" {
			r.Count("definition_rejected_by_constructor")
			return
		}
		r.Count("definitions")
		together := &lexCase{RS: g.RS, Text: g.RS.String()}
		for i := 0; i < 8; i++ {
			c := newLexCase(g.RS, g.GenInput(t))
			report(t, r, checkC03(c, def, r), c)
			together.InputsHex = append(together.InputsHex, fmt.Sprintf("%x", c.Input))
		}
		r.Count("definitions_lexed_by_several_live_lexers")
		report(t, r, checkC03Together(together, def), together)
	}
}

func replayLex(t *testing.T, id string, check func(c *lexCase, def *lexer.StatefulDefinition) outcome) {
	replayAll(t, id, func(raw json.RawMessage) outcome {
		var c lexCase
		if err := json.Unmarshal(raw, &c); err != nil {
			return violationf("harness", "bad replay: %v", err)
		}
		c.fix()
		def, rej := newDef(c.RS)
		if rej != "" {
			return outcome{} // no longer an accepted definition: outside the domain
		}
		return check(&c, def)
	})
}

// checkC03Together: the token stream of an input is the one the rules define whatever other lexers of the same
// definition are doing: all inputs are lexed by lexers that are alive together and advanced in turns, out of step
// (each stream was compared with the reference lexer when it was lexed alone).
func checkC03Together(c *lexCase, def *lexer.StatefulDefinition) outcome {
	return checkC15Lex(&c15Case{RS: c.RS, InputsHex: c.InputsHex, Filename: "f"}, def, nil)
}

func TestC03Replay(t *testing.T) {
	replayLex(t, "C03", func(c *lexCase, def *lexer.StatefulDefinition) outcome {
		if len(c.InputsHex) > 0 {
			return checkC03Together(c, def)
		}
		return checkC03(c, def, nil)
	})
}

// ---------------------------------------------------------------------------------------------
// C07: lexing terminates, makes progress and never panics

const c07Rule = "generated rule sets including Pop/Return reachable in the initial state, optional groups in pushing rules, " +
	"back-references to missing groups x hostile inputs (unbalanced closers, closers first, deep push chains, empty, invalid UTF-8) x k " +
	"extra Next calls after EOF / after an error; oracle: no panic, every Next returns token xor error, non-EOF tokens non-empty, " +
	"token count <= len(input), EOF is sticky at one position also while other lexers of the definition are opened and advanced between the calls; non-trivial = stack depth changed >=2 times, or a Pop/Return happened " +
	"with nothing to return to, or >=3 calls after EOF/error; distinct by SHA-256 of (rules, input, extra calls)"

func checkC07(c *lexCase, def lexer.Definition, r *vstat.Run) outcome {
	desc := func() string {
		return fmt.Sprintf("input %q extra Next calls %d\n%s", c.Input, c.ExtraNext, c.RS.String())
	}
	var out outcome
	var ntoks int
	var sawErr, sawEOF bool
	p := guard(func() {
		var l lexer.Lexer
		var err error
		if sd, ok := def.(lexer.StringDefinition); ok {
			l, err = sd.LexString("f", c.Input)
		} else {
			l, err = def.Lex("f", strings.NewReader(c.Input))
		}
		if err != nil {
			out = violationf("lexstring", "LexString failed: %v", err)
			return
		}
		var eofPos lexer.Position
		for steps := 0; ; steps++ {
			tk, err := l.Next()
			if err != nil {
				sawErr = true
				break
			}
			if tk.EOF() {
				sawEOF = true
				eofPos = tk.Pos
				break
			}
			ntoks++
			if tk.Value == "" {
				out = violationf("empty-token", "non-EOF token %d is empty (type %d at offset %d)\n%s", ntoks, tk.Type, tk.Pos.Offset, desc())
				return
			}
			if ntoks > len(c.Input) {
				out = violationf("no-progress", "more tokens (%d) than input bytes (%d)\n%s", ntoks, len(c.Input), desc())
				return
			}
		}
		// the lexer that has finished stays finished whatever its definition is used for next: other lexers of the
		// definition are opened on other texts and advanced between the extra calls
		var others []lexer.Lexer
		for i := 0; i < c.ExtraNext; i++ {
			if i%2 == 0 {
				if ol, oerr := def.Lex("other", strings.NewReader("a1 ("+c.Input)); oerr == nil {
					others = append(others, ol)
				}
			}
			for _, ol := range others {
				_, _ = ol.Next()
			}
			tk, err := l.Next()
			if sawEOF {
				if err != nil || !tk.EOF() || tk.Pos != eofPos {
					out = violationf("eof-not-sticky", "call %d after EOF returned (%#v, %v), want EOF at %v (other lexers of the definition were opened and advanced in between)\n%s", i+1, tk, err, eofPos, desc())
					return
				}
			}
		}
	})
	if r != nil {
		r.Eval()
		ref := lexgen.RefLex(c.RS, c.Input)
		nt := false
		if ref.Pushes+ref.Pops+ref.Returns >= 2 {
			r.Count("stack_depth_changed_ge_2_times")
			nt = true
		}
		if ref.Underflow {
			r.Count("pop_or_return_with_nothing_to_return_to")
			nt = true
		}
		if ref.NonPart {
			r.Count("action_rule_with_non_participating_group")
			nt = true
		}
		if c.ExtraNext >= 3 {
			r.Count("ge_3_calls_after_eof_or_error")
			nt = true
		}
		if sawErr {
			r.Count("ended_with_error")
		}
		if sawEOF {
			r.Count("ended_with_eof")
		}
		if nt {
			r.NonTrivial(mustJSON(c), sampleLex(c))
		}
	}
	if p != "" {
		sig := "panic"
		switch {
		case strings.Contains(p, "index out of range [-1]"):
			sig = "F11-pop-in-root"
		case strings.Contains(p, "slice bounds out of range [:-1]") || strings.Contains(p, "slice bounds out of range [-1:"):
			sig = "F12-non-participating-group"
		}
		return violationf(sig, "lexer panicked: %s\n%s", p, desc())
	}
	return out
}

func TestC07(t *testing.T) { runProp(t, "C07", c07Rule, propC07) }

func FuzzC07(f *testing.F) { fuzzProp(f, "C07", propC07) }

// c07LongRuns: inputs made of hundreds of thousands of dropped tokens (a long comment block, one-character
// whitespace rules) are flat input: Next has to get through them with a bounded stack.
var c07LongOnce sync.Once

func c07LongRuns(t *rapid.T, r *vstat.Run) {
	debug.SetMaxStack(64 << 20)
	rs := &lexgen.RuleSet{States: []lexgen.StateSpec{{Name: "Root", Rules: []lexgen.RuleSpec{
		{Name: "comment", Pattern: `#[^\n]*`}, {Name: "nl", Pattern: `\n`}, {Name: "sp", Pattern: ` `}, {Name: "Word", Pattern: `\w+`},
	}}}}
	def, rej := newDef(rs)
	if rej != "" {
		return
	}
	for _, in := range []string{strings.Repeat("# c\n", 150000) + "end", strings.Repeat(" ", 300000) + "x " + strings.Repeat(" ", 300000)} {
		c := &lexCase{RS: rs, Text: rs.String(), InputHex: "", Input: in[:40] + "...", ExtraNext: 1}
		r.Journal(c, fmt.Sprintf("an input of %d dropped tokens", strings.Count(in, "\n")+strings.Count(in, " ")))
		var o outcome
		if pm := guardFor(func() {
			l, err := def.LexString("f", in)
			if err != nil {
				o = violationf("long-run", "LexString failed: %v", err)
				return
			}
			n := 0
			for {
				tk, err := l.Next()
				if err != nil {
					o = violationf("long-run", "an input of dropped tokens and one word: Next failed after %d tokens: %v", n, err)
					return
				}
				if tk.EOF() {
					break
				}
				if n++; tk.Value == "" || n > len(in) {
					o = violationf("long-run", "empty token or more tokens than input bytes after %d tokens", n)
					return
				}
			}
			if tk, err := l.Next(); err != nil || !tk.EOF() {
				o = violationf("long-run", "EOF is not sticky: %v %v", tk, err)
			}
		}, 6); pm != "" {
			o = violationf("long-run", "an input of %d bytes of dropped tokens: %s", len(in), pm)
		}
		r.Eval()
		r.JournalDone()
		r.Count("long_runs_of_dropped_tokens")
		report(t, r, o, c)
	}
}

func propC07(t *rapid.T, r *vstat.Run) {
	c07LongOnce.Do(func() { c07LongRuns(t, r) })
	{
		if rapid.IntRange(0, 9).Draw(t, "realistic") == 0 {
			rs, in := drawFixtureLexCase(t)
			if def, rej := newDef(rs); rej == "" {
				r.Count("realistic_example_lexer")
				c := newLexCase(rs, in)
				c.ExtraNext = rapid.SampledFrom([]int{0, 1, 3}).Draw(t, "extra")
				report(t, r, checkC07(c, def, r), c)
			}
			return
		}
		g := lexgen.GenRuleSet(t, lexgen.RuleOpts{AllowUnderflow: true})
		def, rej := newDef(g.RS)
		if rej != "" {
			r.Count("definition_rejected_by_constructor")
			return
		}
		r.Count("definitions")
		for i := 0; i < 6; i++ {
			c := newLexCase(g.RS, g.GenInput(t))
			c.ExtraNext = rapid.SampledFrom([]int{0, 1, 3, 5}).Draw(t, "extra")
			report(t, r, checkC07(c, def, r), c)
		}
	}
}

func TestC07Replay(t *testing.T) {
	replayLex(t, "C07", func(c *lexCase, def *lexer.StatefulDefinition) outcome { return checkC07(c, def, nil) })
}

// ---------------------------------------------------------------------------------------------
// C16: lexer definitions survive JSON serialisation

const c16Rule = "generated rule sets (all action kinds, nested includes, patterns with quotes, backslashes, <>&, non-ASCII) x inputs; " +
	"single-state rule sets without actions are built through NewSimple (one rule listed twice); oracle (round trip + differential): New(Unmarshal(Marshal(definition))) and New(Unmarshal(Marshal(rules))), each built twice from the same unmarshalled value " +
	"and lexed with before anything asks for their symbols, produce the same token stream / error as the original definition and then have equal Symbols(); non-trivial = the definition has an include and a push/pop " +
	"and the input reaches a second state; distinct by SHA-256 of (rules, input)"

func roundTrip(v any) (first, again *lexer.StatefulDefinition, msg string) {
	data, err := json.Marshal(v)
	if err != nil {
		return nil, nil, "Marshal failed: " + err.Error()
	}
	var rules lexer.Rules
	if err := json.Unmarshal(data, &rules); err != nil {
		return nil, nil, fmt.Sprintf("Unmarshal failed: %v\nJSON: %s", err, data)
	}
	if p := guard(func() { first, err = lexer.New(rules) }); p != "" {
		return nil, nil, fmt.Sprintf("New(unmarshalled rules) panicked: %s\nJSON: %s", p, data)
	}
	if err != nil {
		return nil, nil, fmt.Sprintf("New(unmarshalled rules) failed: %v\nJSON: %s", err, data)
	}
	// the unmarshalled rules are a value like any other: a second definition built from them is the same definition
	// (slices that json.Unmarshal grew have spare capacity, unlike slices written as literals)
	if p := guard(func() { again, err = lexer.New(rules) }); p != "" || err != nil {
		return nil, nil, fmt.Sprintf("New(unmarshalled rules) succeeded once, the second call on the same rules: %v %s\nJSON: %s", err, p, data)
	}
	// neither definition has been asked for its symbol table yet: the first thing the caller does with them is lex
	return first, again, ""
}

// another definition whose JSON is about as long as a generated one's
var c16Other = lexer.MustStateful(lexer.Rules{
	"Root":  {{Name: "Open", Pattern: `<<(\w+)`, Action: lexer.Push("Body")}, {Name: "Word", Pattern: `[\pL\d]+`, Action: nil}, {Name: "ws", Pattern: `\s+`, Action: nil}},
	"Body":  {{Name: "Close", Pattern: `\1`, Action: lexer.Pop()}, lexer.Include("Other"), {Name: "Char", Pattern: `(?s:.)`, Action: nil}},
	"Other": {{Name: "Esc", Pattern: `\\.`, Action: nil}},
})

type c16Defs struct {
	orig, viaDef, viaRules *lexer.StatefulDefinition
	viaDef2, viaRules2     *lexer.StatefulDefinition // built second from the same unmarshalled rules
	rs                     *lexgen.RuleSet
	symsChecked            bool // the rebuilt definitions are first lexed with, then asked for their symbols
}

func buildC16(rs *lexgen.RuleSet) (*c16Defs, string, outcome) {
	// the definition is built from a rule map that the caller keeps editing afterwards: what is marshalled
	// must be the definition as built, not an alias of the caller's slices
	userRules := rs.ToRules()
	var def *lexer.StatefulDefinition
	var nerr error
	rej := ""
	// a rule set with one state and no actions is what lexer.NewSimple takes: the definition is then built that way
	// (its JSON and Rules() still go back in through lexer.New)
	var simple []lexer.SimpleRule
	if len(rs.States) == 1 && rs.States[0].Name == "Root" {
		for _, ru := range rs.States[0].Rules {
			if ru.Action != "" {
				simple = nil
				break
			}
			simple = append(simple, lexer.SimpleRule{Name: ru.Name, Pattern: ru.Pattern})
		}
	}
	if p := guard(func() {
		if simple != nil {
			def, nerr = lexer.NewSimple(simple)
			return
		}
		def, nerr = lexer.New(userRules)
	}); p != "" {
		rej = "constructor panicked: " + p
	} else if nerr != nil {
		rej = nerr.Error()
	}
	if rej != "" {
		return nil, rej, outcome{}
	}
	for state := range userRules {
		for i := range userRules[state] {
			userRules[state][i].Pattern = "scribbled-over-after-New"
			userRules[state][i].Name = "Scribble"
		}
	}
	d := &c16Defs{orig: def, rs: rs}
	_ = def.Symbols() // the original has been in use (a parser was built on it); the rebuilt ones are brand new
	var msg string
	var pmsg string
	// what Rules() hands out is the caller's to edit as well: it must not be what the definition marshals later
	pmsg = guard(func() {
		got := def.Rules()
		for state := range got {
			for i := range got[state] {
				got[state][i].Pattern = "edited-copy-of-Rules()"
			}
			delete(got, state)
		}
	})
	if pmsg != "" {
		return nil, "", violationf("roundtrip", "Rules() panicked: %s\n%s", pmsg, rs.String())
	}
	pmsg = guard(func() {
		d.viaDef, d.viaDef2, msg = roundTrip(def)
	})
	if pmsg != "" || msg != "" {
		return nil, "", violationf("roundtrip", "marshalling the definition: %s%s\n%s", msg, pmsg, rs.String())
	}
	// the bytes MarshalJSON returned are the caller's: marshalling again (this definition, another one) leaves them alone
	pmsg = guard(func() {
		first, err := def.MarshalJSON()
		if err != nil {
			msg = "MarshalJSON: " + err.Error()
			return
		}
		keep := string(first)
		_, _ = c16Other.MarshalJSON()
		_, _ = def.MarshalJSON()
		_, _ = c16Other.MarshalJSON()
		if string(first) != keep {
			msg = fmt.Sprintf("the result of MarshalJSON changed after later MarshalJSON calls:\n was %s\n now %s", keep, first)
		}
	})
	if pmsg != "" || msg != "" {
		return nil, "", violationf("roundtrip", "marshalling the definition twice: %s%s\n%s", msg, pmsg, rs.String())
	}
	pmsg = guard(func() {
		d.viaRules, d.viaRules2, msg = roundTrip(rs.ToRules())
	})
	if pmsg != "" || msg != "" {
		return nil, "", violationf("roundtrip", "marshalling the rule set: %s%s\n%s", msg, pmsg, rs.String())
	}
	return d, "", outcome{}
}

func sortedSyms(m map[string]lexer.TokenType) string {
	keys := make([]string, 0, len(m))
	for k := range m {
		keys = append(keys, k)
	}
	sort.Strings(keys)
	var sb strings.Builder
	for _, k := range keys {
		fmt.Fprintf(&sb, "%s=%d ", k, m[k])
	}
	return sb.String()
}

func sameRun(a, b lexRun) string {
	if (a.panicMsg != "") != (b.panicMsg != "") {
		return fmt.Sprintf("one panics, the other does not: %q vs %q", a.panicMsg, b.panicMsg)
	}
	if a.panicMsg != "" {
		return ""
	}
	if (a.err == nil) != (b.err == nil) || (a.err != nil && a.err.Error() != b.err.Error()) {
		return fmt.Sprintf("errors differ: %v vs %v", a.err, b.err)
	}
	if len(a.toks) != len(b.toks) {
		return fmt.Sprintf("%d vs %d tokens", len(a.toks), len(b.toks))
	}
	for i := range a.toks {
		if a.toks[i] != b.toks[i] {
			return fmt.Sprintf("token %d: %#v vs %#v", i, a.toks[i], b.toks[i])
		}
	}
	return ""
}

func checkC16(c *lexCase, d *c16Defs, r *vstat.Run) outcome {
	a := lexAll(d.orig, "f", c.Input)
	b1 := lexAll(d.viaDef, "f", c.Input)
	b2 := lexAll(d.viaRules, "f", c.Input)
	if r != nil {
		r.Eval()
		ref := lexgen.RefLex(c.RS, c.Input)
		hasInc, hasPush := false, false
		for _, st := range c.RS.States {
			for _, ru := range st.Rules {
				if ru.Action == "include" {
					hasInc = true
				}
				if ru.Action == "push" || ru.Action == "pop" {
					hasPush = true
				}
			}
		}
		if hasInc {
			r.Count("definition_with_include")
		}
		if ref.Pushes > 0 {
			r.Count("input_reaches_second_state")
		}
		if hasInc && hasPush && ref.Pushes > 0 {
			r.NonTrivial(mustJSON(c), sampleLex(c))
		}
	}
	if m := sameRun(a, b1); m != "" {
		return violationf("stream", "definition rebuilt from its JSON behaves differently: %s\ninput %q\n%s", m, c.Input, c.RS.String())
	}
	if m := sameRun(a, b2); m != "" {
		return violationf("stream", "definition rebuilt from the rule set's JSON behaves differently: %s\ninput %q\n%s", m, c.Input, c.RS.String())
	}
	if m := sameRun(a, lexAll(d.viaDef2, "f", c.Input)); m != "" {
		return violationf("stream", "the second definition built from the unmarshalled JSON of the definition behaves differently: %s\ninput %q\n%s", m, c.Input, c.RS.String())
	}
	if m := sameRun(a, lexAll(d.viaRules2, "f", c.Input)); m != "" {
		return violationf("stream", "the second definition built from the unmarshalled JSON of the rule set behaves differently: %s\ninput %q\n%s", m, c.Input, c.RS.String())
	}
	if !d.symsChecked {
		d.symsChecked = true
		for _, o := range []struct {
			name string
			def  *lexer.StatefulDefinition
		}{{"definition", d.viaDef}, {"definition (second build)", d.viaDef2}, {"rule set", d.viaRules}, {"rule set (second build)", d.viaRules2}} {
			if !reflect.DeepEqual(d.orig.Symbols(), o.def.Symbols()) {
				return violationf("symbols", "symbol table changed by the JSON round trip of the %s:\n before %v\n after  %v\n%s", o.name, sortedSyms(d.orig.Symbols()), sortedSyms(o.def.Symbols()), c.RS.String())
			}
		}
	}
	return outcome{}
}

func TestC16(t *testing.T) {
	runProp(t, "C16", c16Rule, func(t *rapid.T, r *vstat.Run) {
		if rapid.IntRange(0, 9).Draw(t, "realistic") == 0 {
			rs, in := drawFixtureLexCase(t)
			d, rej, o := buildC16(rs)
			c := newLexCase(rs, in)
			if o.failed() {
				report(t, r, o, c)
				return
			}
			if rej == "" {
				r.Count("realistic_example_lexer")
				report(t, r, checkC16(c, d, r), c)
			}
			return
		}
		g := lexgen.GenRuleSet(t, lexgen.RuleOpts{AllowUnderflow: false})
		rs := g.RS
		if rapid.IntRange(0, 7).Draw(t, "simple") == 0 {
			// what NewSimple takes: the plain rules of the root state, one of them listed twice
			st := lexgen.StateSpec{Name: "Root"}
			for _, ru := range g.RS.States[0].Rules {
				if ru.Action == "" {
					st.Rules = append(st.Rules, ru)
				}
			}
			if len(st.Rules) > 0 {
				dup := st.Rules[rapid.IntRange(0, len(st.Rules)-1).Draw(t, "dup")]
				at := rapid.IntRange(0, len(st.Rules)).Draw(t, "dupat")
				st.Rules = append(st.Rules[:at:at], append([]lexgen.RuleSpec{dup}, st.Rules[at:]...)...)
				rs = &lexgen.RuleSet{States: []lexgen.StateSpec{st}}
				r.Count("definitions_built_with_NewSimple")
			}
		}
		d, rej, o := buildC16(rs)
		if o.failed() {
			report(t, r, o, newLexCase(rs, ""))
			return
		}
		if rej != "" {
			r.Count("definition_rejected_by_constructor")
			return
		}
		r.Count("definitions")
		for i := 0; i < 6; i++ {
			c := newLexCase(rs, g.GenInput(t))
			report(t, r, checkC16(c, d, r), c)
		}
	})
}

func TestC16Replay(t *testing.T) {
	replayAll(t, "C16", func(raw json.RawMessage) outcome {
		var c lexCase
		if err := json.Unmarshal(raw, &c); err != nil {
			return violationf("harness", "bad replay: %v", err)
		}
		c.fix()
		d, rej, o := buildC16(c.RS)
		if o.failed() {
			return o
		}
		if rej != "" {
			return outcome{}
		}
		return checkC16(&c, d, nil)
	})
}
