package props

import (
	"encoding/json"
	"fmt"
	"math"
	"reflect"
	"strconv"
	"strings"
	"sync"
	"testing"

	"github.com/alecthomas/participle/v2"
	"github.com/alecthomas/participle/v2/lexer"
	"pgregory.net/rapid"

	"verifharness/vstat"
)

// ---- C17: numeric captures convert exactly or fail with a located error ----

var (
	c17Lex = lexer.MustSimple([]lexer.SimpleRule{
		{Name: "Tok", Pattern: `[^\s;]+`}, {Name: "Semi", Pattern: `;`}, {Name: "WS", Pattern: `\s+`},
	})
	// a number token that may carry a trailing blank (strconv does not accept it)
	c17PadLex = lexer.MustSimple([]lexer.SimpleRule{
		{Name: "Tok", Pattern: `[^\s;]+[ \t]?`}, {Name: "Semi", Pattern: `;`}, {Name: "WS", Pattern: `\s+`},
	})
	c17SignLex = lexer.MustSimple([]lexer.SimpleRule{
		{Name: "Sign", Pattern: `[-+]`}, {Name: "Tok", Pattern: `[^\s;+-][^\s;]*`}, {Name: "Semi", Pattern: `;`}, {Name: "WS", Pattern: `\s+`},
	})
)

// numbers written as quoted strings: the text the field converts is what Unquote makes of the token (may be empty)
var c17StrLex = lexer.MustSimple([]lexer.SimpleRule{
	{Name: "String", Pattern: `"[^"]*"`}, {Name: "Tok", Pattern: `[^\s;"]+`}, {Name: "Semi", Pattern: `;`}, {Name: "WS", Pattern: `\s+`},
})

type numQuoted[T any] struct {
	V T `@String`
}
type numQuotedSlice[T any] struct {
	V []T `@String+`
}

// numParts: a number written in up to four tokens, the later ones matched inside an optional group: 1e +5
type numParts[T any] struct {
	V T `@(Sign? Tok (Sign Tok)?)`
}

// numList: entries in a list, each a number followed by an optional part that starts like the list's separator --
// the attempt at the optional part is abandoned one token in, and the conversion error of the entry is raised when
// the entry completes: it is the error of the parse, not the abandoned attempt's
type numList[T any] struct {
	Entries []*numEntry[T] `@@ ( ";" @@ )*`
}
type numEntry[T any] struct {
	N    T      `@Tok`
	Unit string `( ";" @"unit" )?`
}

// numTyped: the number is captured through an empty literal with a type constraint (any token of that type)
type numTyped[T any] struct {
	V T `@"":Tok`
}

type numScalar[T any] struct {
	V T `@Tok`
}
type numPtr[T any] struct {
	V *T `@Tok`
}
type numSlice[T any] struct {
	V []T `@Tok+`
}
type numSliceCap[T any] struct {
	V []T `@( Tok+ )`
}
type numSigned[T any] struct {
	V T `@(Sign? Tok)`
}
type numSignedPtr[T any] struct {
	V *T `@(Sign? Tok)`
}

// numNested: the number is captured, then a nested production completes, all inside an optional group; another
// optional group could take the same tokens. The conversion happens when this production completes.
type numNested[T any] struct {
	V T         `( @Tok`
	C *numChild `  @@ )?`
	A string    `( Tok @Tok )?`
}
type numChild struct {
	W string `@Tok`
}

// numTwice: two separate captures into one scalar field; each is converted on its own, the later one stays
type numTwice[T any] struct {
	V T `@Tok ";" @Tok`
}

// numNegated: the number is whatever token is not a semicolon (captured through a negation)
type numNegated[T any] struct {
	A string `@Tok ";"`
	V T      `@~";"`
}

type numOuter[T any] struct {
	N *numScalar[T] `  @@ ";"`
	S string        `| @Tok ";"`
}
type numAfter[T any] struct {
	A string `@Tok ";"`
	V T      `@Tok`
}

type (
	MyInt8    int8
	MyInt32   int32
	MyUint16  uint16
	MyUint    uint
	MyFloat32 float32
	MyFloat64 float64
)

type numRes struct {
	err      error
	panicMsg string
	vals     []reflect.Value // the numeric field value(s), pointers dereferenced; nil entry = nil pointer
	altS     string          // numOuter: the S field
	altNil   bool            // numOuter: N == nil
}

type numKind struct {
	name  string
	class string // int | uint | float
	bits  int
	run   func(shape, input string) numRes
}

func fieldVals(v reflect.Value) []reflect.Value {
	for v.Kind() == reflect.Ptr {
		if v.IsNil() {
			return []reflect.Value{{}}
		}
		v = v.Elem()
	}
	if v.Kind() == reflect.Slice {
		var out []reflect.Value
		for i := 0; i < v.Len(); i++ {
			out = append(out, v.Index(i))
		}
		return out
	}
	return []reflect.Value{v}
}

func mkNumKind[T any](name, class string, bits int) numKind {
	var (
		pScalar *participle.Parser[numScalar[T]]
		pPtr    *participle.Parser[numPtr[T]]
		pSlice  *participle.Parser[numSlice[T]]
		pSigned *participle.Parser[numSigned[T]]
		pSlCap  *participle.Parser[numSliceCap[T]]
		pOuter  *participle.Parser[numOuter[T]]
		pAfter  *participle.Parser[numAfter[T]]
		pSigPtr *participle.Parser[numSignedPtr[T]]
		pNested *participle.Parser[numNested[T]]
		pTwice  *participle.Parser[numTwice[T]]
		pPadded *participle.Parser[numScalar[T]]
		pNeg    *participle.Parser[numNegated[T]]
		pQuoted *participle.Parser[numQuoted[T]]
		pQuoSl  *participle.Parser[numQuotedSlice[T]]
		pParts  *participle.Parser[numParts[T]]
		pList   *participle.Parser[numList[T]]
		pTyped  *participle.Parser[numTyped[T]]
	)
	opts := []participle.Option{participle.Lexer(c17Lex), participle.Elide("WS")}
	return numKind{name: name, class: class, bits: bits, run: func(shape, input string) (res numRes) {
		res.panicMsg = guard(func() {
			switch shape {
			case "scalar":
				if pScalar == nil {
					pScalar = participle.MustBuild[numScalar[T]](opts...)
				}
				ast, err := pScalar.ParseString("f", input)
				res.err = err
				if err == nil {
					res.vals = fieldVals(reflect.ValueOf(ast).Elem().Field(0))
				}
			case "ptr":
				if pPtr == nil {
					pPtr = participle.MustBuild[numPtr[T]](opts...)
				}
				ast, err := pPtr.ParseString("f", input)
				res.err = err
				if err == nil {
					res.vals = fieldVals(reflect.ValueOf(ast).Elem().Field(0))
				}
			case "slice":
				if pSlice == nil {
					pSlice = participle.MustBuild[numSlice[T]](opts...)
				}
				ast, err := pSlice.ParseString("f", input)
				res.err = err
				if err == nil {
					res.vals = fieldVals(reflect.ValueOf(ast).Elem().Field(0))
				}
			case "slicecap":
				if pSlCap == nil {
					pSlCap = participle.MustBuild[numSliceCap[T]](opts...)
				}
				ast, err := pSlCap.ParseString("f", input)
				res.err = err
				if err == nil {
					res.vals = fieldVals(reflect.ValueOf(ast).Elem().Field(0))
				}
			case "signed":
				if pSigned == nil {
					pSigned = participle.MustBuild[numSigned[T]](participle.Lexer(c17SignLex), participle.Elide("WS"))
				}
				ast, err := pSigned.ParseString("f", input)
				res.err = err
				if err == nil {
					res.vals = fieldVals(reflect.ValueOf(ast).Elem().Field(0))
				}
			case "signedptr":
				if pSigPtr == nil {
					pSigPtr = participle.MustBuild[numSignedPtr[T]](participle.Lexer(c17SignLex), participle.Elide("WS"))
				}
				ast, err := pSigPtr.ParseString("f", input)
				res.err = err
				if err == nil {
					res.vals = fieldVals(reflect.ValueOf(ast).Elem().Field(0))
				}
			case "nested":
				if pNested == nil {
					pNested = participle.MustBuild[numNested[T]](append([]participle.Option{participle.UseLookahead(3)}, opts...)...)
				}
				ast, err := pNested.ParseString("f", input)
				res.err = err
				if err == nil {
					res.vals = fieldVals(reflect.ValueOf(ast).Elem().Field(0))
				}
			case "twice":
				if pTwice == nil {
					pTwice = participle.MustBuild[numTwice[T]](opts...)
				}
				ast, err := pTwice.ParseString("f", input)
				res.err = err
				if err == nil {
					res.vals = fieldVals(reflect.ValueOf(ast).Elem().Field(0))
				}
			case "padded":
				if pPadded == nil {
					pPadded = participle.MustBuild[numScalar[T]](participle.Lexer(c17PadLex), participle.Elide("WS"))
				}
				ast, err := pPadded.ParseString("f", input)
				res.err = err
				if err == nil {
					res.vals = fieldVals(reflect.ValueOf(ast).Elem().Field(0))
				}
			case "outer":
				if pOuter == nil {
					pOuter = participle.MustBuild[numOuter[T]](opts...)
				}
				ast, err := pOuter.ParseString("f", input)
				res.err = err
				if err == nil {
					res.altNil = ast.N == nil
					res.altS = ast.S
					if ast.N != nil {
						res.vals = fieldVals(reflect.ValueOf(ast.N).Elem().Field(0))
					}
				}
			case "negated":
				if pNeg == nil {
					pNeg = participle.MustBuild[numNegated[T]](opts...)
				}
				ast, err := pNeg.ParseString("f", input)
				res.err = err
				if err == nil {
					res.vals = fieldVals(reflect.ValueOf(ast).Elem().Field(1))
				}
			case "quoted":
				if pQuoted == nil {
					pQuoted = participle.MustBuild[numQuoted[T]](participle.Lexer(c17StrLex), participle.Elide("WS"), participle.Unquote("String"))
				}
				ast, err := pQuoted.ParseString("f", input)
				res.err = err
				if err == nil {
					res.vals = fieldVals(reflect.ValueOf(ast).Elem().Field(0))
				}
			case "quotedslice":
				if pQuoSl == nil {
					pQuoSl = participle.MustBuild[numQuotedSlice[T]](participle.Lexer(c17StrLex), participle.Elide("WS"), participle.Unquote("String"))
				}
				ast, err := pQuoSl.ParseString("f", input)
				res.err = err
				if err == nil {
					res.vals = fieldVals(reflect.ValueOf(ast).Elem().Field(0))
				}
			case "parts":
				if pParts == nil {
					pParts = participle.MustBuild[numParts[T]](participle.Lexer(c17SignLex), participle.Elide("WS"))
				}
				ast, err := pParts.ParseString("f", input)
				res.err = err
				if err == nil {
					res.vals = fieldVals(reflect.ValueOf(ast).Elem().Field(0))
				}
			case "typedlit":
				if pTyped == nil {
					pTyped = participle.MustBuild[numTyped[T]](opts...)
				}
				ast, err := pTyped.ParseString("f", input)
				res.err = err
				if err == nil {
					res.vals = fieldVals(reflect.ValueOf(ast).Elem().Field(0))
				}
			case "listed":
				if pList == nil {
					pList = participle.MustBuild[numList[T]](opts...)
				}
				ast, err := pList.ParseString("f", input)
				res.err = err
				if err == nil {
					for _, e := range ast.Entries {
						res.vals = append(res.vals, fieldVals(reflect.ValueOf(e).Elem().Field(0))...)
					}
				}
			case "after":
				if pAfter == nil {
					pAfter = participle.MustBuild[numAfter[T]](opts...)
				}
				ast, err := pAfter.ParseString("f", input)
				res.err = err
				if err == nil {
					res.vals = fieldVals(reflect.ValueOf(ast).Elem().Field(1))
				}
			}
		})
		return res
	}}
}

var numKinds = []numKind{
	mkNumKind[int8]("int8", "int", 8), mkNumKind[int16]("int16", "int", 16), mkNumKind[int32]("int32", "int", 32),
	mkNumKind[int64]("int64", "int", 64), mkNumKind[int]("int", "int", strconv.IntSize),
	mkNumKind[uint8]("uint8", "uint", 8), mkNumKind[uint16]("uint16", "uint", 16), mkNumKind[uint32]("uint32", "uint", 32),
	mkNumKind[uint64]("uint64", "uint", 64), mkNumKind[uint]("uint", "uint", strconv.IntSize),
	mkNumKind[float32]("float32", "float", 32), mkNumKind[float64]("float64", "float", 64),
	mkNumKind[MyInt8]("MyInt8", "int", 8), mkNumKind[MyInt32]("MyInt32", "int", 32), mkNumKind[MyUint16]("MyUint16", "uint", 16),
	mkNumKind[MyUint]("MyUint", "uint", strconv.IntSize), mkNumKind[MyFloat32]("MyFloat32", "float", 32), mkNumKind[MyFloat64]("MyFloat64", "float", 64),
}

// two distinct named types that print identically ("props.Level"): a conversion cache keyed by the type's
// name instead of its identity would mix up their bit sizes
func mkLevelNarrow() numKind { type Level int8; return mkNumKind[Level]("Level/int8", "int", 8) }
func mkLevelWide() numKind   { type Level int64; return mkNumKind[Level]("Level/int64", "int", 64) }
func mkRatioNarrow() numKind {
	type Ratio float32
	return mkNumKind[Ratio]("Ratio/float32", "float", 32)
}
func mkRatioWide() numKind { type Ratio float64; return mkNumKind[Ratio]("Ratio/float64", "float", 64) }

func init() {
	numKinds = append(numKinds, mkLevelNarrow(), mkLevelWide(), mkRatioNarrow(), mkRatioWide())
}

func numKindByName(n string) *numKind {
	for i := range numKinds {
		if numKinds[i].name == n {
			return &numKinds[i]
		}
	}
	return nil
}

type c17Case struct {
	Kind   string   `json:"kind"`
	Shape  string   `json:"shape"` // scalar | ptr | slice | slicecap | signed | signedptr | nested | outer | after
	Texts  []string `json:"texts"` // token texts (slice: several; signed: [sign, digits]; others: one)
	Spaces string   `json:"spaces,omitempty"`
	Par    int      `json:"par,omitempty"` // > 1: also converted while that many goroutines use the same parser
}

func (c *c17Case) input() string {
	switch c.Shape {
	case "slice", "slicecap":
		return strings.Join(c.Texts, " ")
	case "signed", "signedptr":
		return c.Texts[0] + c.Spaces + c.Texts[1]
	case "listed":
		return strings.Join(c.Texts, c.Spaces+";"+c.Spaces)
	case "quoted", "quotedslice":
		var parts []string
		for _, t := range c.Texts {
			parts = append(parts, `"`+t+`"`)
		}
		return strings.Join(parts, c.Spaces)
	case "parts":
		// [sign] tok [sign tok]: a blank in front of the second sign keeps it out of the first token
		var sb strings.Builder
		for i, t := range c.Texts {
			if i > 0 && (t == "+" || t == "-") {
				sb.WriteString(" ")
			} else if i > 0 {
				sb.WriteString(c.Spaces)
			}
			sb.WriteString(t)
		}
		return sb.String()
	case "nested":
		return c.Texts[0] + " x"
	case "twice":
		return c.Texts[0] + c.Spaces + ";" + c.Spaces + c.Texts[1]
	case "padded":
		return c.Texts[0] // the text ends in a blank that belongs to the token
	case "outer":
		return c.Texts[0] + c.Spaces + ";"
	case "after", "negated":
		return "x;" + c.Spaces + c.Texts[0]
	}
	return c.Texts[0]
}

// expectation from strconv
type numWant struct {
	ok bool
	i  int64
	u  uint64
	f  float64
}

func numExpect(k *numKind, text string) numWant {
	switch k.class {
	case "int":
		n, err := strconv.ParseInt(text, 0, k.bits)
		return numWant{ok: err == nil, i: n}
	case "uint":
		n, err := strconv.ParseUint(text, 0, k.bits)
		return numWant{ok: err == nil, u: n}
	default:
		n, err := strconv.ParseFloat(text, k.bits)
		return numWant{ok: err == nil, f: n}
	}
}

func numEqual(k *numKind, got reflect.Value, w numWant) bool {
	if !got.IsValid() {
		return false
	}
	switch k.class {
	case "int":
		return got.Int() == w.i
	case "uint":
		return got.Uint() == w.u
	default:
		g := got.Float()
		if math.IsNaN(g) && math.IsNaN(w.f) {
			return true
		}
		if k.bits == 32 {
			return math.Float32bits(float32(g)) == math.Float32bits(float32(w.f))
		}
		return math.Float64bits(g) == math.Float64bits(w.f)
	}
}

func fmtVals(vs []reflect.Value) string {
	var ss []string
	for _, v := range vs {
		if !v.IsValid() {
			ss = append(ss, "<nil>")
		} else {
			ss = append(ss, fmt.Sprint(v.Interface()))
		}
	}
	return "[" + strings.Join(ss, " ") + "]"
}

const c17Rule = "static grammars for every numeric kind (int8..int64, int, uint8..uint64, uint, float32, float64, named types) in six " +
	"shapes (scalar, pointer, slice, multi-token @(Sign? Tok) into a value and into a pointer, before a nested production inside an optional group, inside an alternative that can accept the text another way, after other " +
	"tokens, a number in up to four tokens with an optional tail @(Sign? Tok (Sign Tok)?), quoted texts unquoted by Unquote incl. the empty text, " +
	"one case in forty also converted by 2-8 goroutines at once) x texts (boundary values +-1 of every width in base 10/16/8/2, signs, prefixes, underscores, exponents, hex floats, Inf/NaN " +
	"spellings, junk); oracle: strconv.ParseInt/ParseUint/ParseFloat with the field's bit size and base 0 -- success => the field holds " +
	"exactly that value, failure => Parse fails with an error positioned at the first captured token that mentions the conversion (or the " +
	"enclosing alternative captures the text as a string and the numeric node is absent); non-trivial = the text is within +-1 of a width " +
	"boundary or uses a prefix, underscore, exponent or Inf/NaN spelling; distinct by SHA-256 of the case"

// checkC17 judges the case on its own and, for Par > 1, also while Par goroutines convert other numbers with the
// same parser: what a capture stores is the value of its own text, whoever else is parsing.
func checkC17(c *c17Case, r *vstat.Run) outcome {
	o := checkC17One(c, r)
	if o.failed() || c.Par < 2 {
		return o
	}
	k := numKindByName(c.Kind)
	type outc struct {
		err  string
		vals string
	}
	run := func(in string) outc {
		res := k.run(c.Shape, in)
		e := ""
		if res.err != nil {
			e = res.err.Error()
		}
		return outc{e + res.panicMsg, fmtVals(res.vals)}
	}
	inputs := make([]string, c.Par)
	alone := make([]outc, c.Par)
	for g := range inputs {
		cc := *c
		cc.Texts = append([]string(nil), c.Texts...)
		if g > 0 {
			cc.Texts[len(cc.Texts)-1] = fmt.Sprint(7 + 13*g) // another number of the same shape
		}
		inputs[g] = cc.input()
		alone[g] = run(inputs[g])
	}
	var wg sync.WaitGroup
	bad := make([]string, c.Par)
	start := make(chan struct{})
	for g := range inputs {
		wg.Add(1)
		go func(g int) {
			defer wg.Done()
			<-start
			for i := 0; i < 150 && bad[g] == ""; i++ {
				if got := run(inputs[g]); got != alone[g] {
					bad[g] = fmt.Sprintf("input %q: alone it gives values %s error %q, next to %d other goroutines using the same parser it gives values %s error %q", inputs[g], alone[g].vals, alone[g].err, c.Par-1, got.vals, got.err)
				}
			}
		}(g)
	}
	close(start)
	wg.Wait()
	if r != nil {
		r.Count("case_converted_by_several_goroutines_at_once")
	}
	for _, b := range bad {
		if b != "" {
			return violationf("concurrent-value", "kind %s shape %s: %s", c.Kind, c.Shape, b)
		}
	}
	return outcome{}
}

func checkC17One(c *c17Case, r *vstat.Run) outcome {
	k := numKindByName(c.Kind)
	if k == nil {
		return violationf("harness", "unknown kind %q", c.Kind)
	}
	input := c.input()
	// make sure the lexer really yields the texts as tokens (otherwise the case is outside the domain)
	def := lexer.Definition(c17Lex)
	if c.Shape == "signed" || c.Shape == "signedptr" || c.Shape == "parts" {
		def = c17SignLex
	}
	quoted := c.Shape == "quoted" || c.Shape == "quotedslice"
	if quoted {
		def = c17StrLex
		for _, t := range c.Texts {
			if strings.ContainsAny(t, "\"\\\n\r") {
				return outcome{} // outside the domain: Unquote would not give back the text as it is
			}
		}
	}
	if c.Shape == "padded" {
		def = c17PadLex
	}
	lr := lexAll(def, "f", input)
	var toks []lexer.Token
	for _, t := range lr.toks {
		if !t.EOF() && strings.TrimSpace(t.Value) != "" && t.Value != ";" && !((c.Shape == "after" || c.Shape == "nested" || c.Shape == "negated") && t.Value == "x") {
			toks = append(toks, t)
		}
	}
	if lr.err != nil || len(toks) != len(c.Texts) {
		if r != nil {
			r.Count("skipped_text_not_lexed_as_given")
		}
		return outcome{}
	}
	for i := range toks {
		if want := c.Texts[i]; toks[i].Value != want && !(quoted && toks[i].Value == `"`+want+`"`) {
			if r != nil {
				r.Count("skipped_text_not_lexed_as_given")
			}
			return outcome{}
		}
	}
	res := k.run(c.Shape, input)
	if r != nil {
		r.Eval()
		r.Count("shape_" + c.Shape)
	}
	desc := fmt.Sprintf("kind %s shape %s input %q", c.Kind, c.Shape, input)
	if res.panicMsg != "" {
		return violationf("panic", "%s: %s", desc, res.panicMsg)
	}
	// expected
	var wants []numWant
	switch c.Shape {
	case "slice", "slicecap", "quotedslice", "listed":
		for _, t := range c.Texts {
			wants = append(wants, numExpect(k, t))
		}
	case "signed", "signedptr":
		wants = []numWant{numExpect(k, c.Texts[0]+c.Texts[1])}
	case "parts":
		wants = []numWant{numExpect(k, strings.Join(c.Texts, ""))}
	case "twice":
		wants = []numWant{numExpect(k, c.Texts[0]), numExpect(k, c.Texts[1])}
	default:
		wants = []numWant{numExpect(k, c.Texts[0])}
	}
	allOK := true
	firstBad := -1
	for i, w := range wants {
		if !w.ok {
			allOK = false
			if firstBad < 0 {
				firstBad = i
			}
		}
	}
	if r != nil {
		if allOK {
			r.Count("strconv_accepts")
		} else {
			r.Count("strconv_rejects")
		}
	}
	if c.Shape == "outer" {
		if res.err != nil {
			return violationf("outer-error", "%s: Parse failed (%v) although the alternative `@Tok \";\"` accepts the input", desc, res.err)
		}
		if allOK {
			if res.altNil || len(res.vals) != 1 || !numEqual(k, res.vals[0], wants[0]) || res.altS != "" {
				return violationf("value", "%s: want numeric node holding the strconv value, got N nil=%v vals=%s S=%q", desc, res.altNil, fmtVals(res.vals), res.altS)
			}
			return outcome{}
		}
		if !res.altNil || res.altS != c.Texts[0] {
			return violationf("silent-value", "%s: strconv rejects the text, so the second alternative must capture it as a string and no numeric node may exist; got N nil=%v vals=%s S=%q", desc, res.altNil, fmtVals(res.vals), res.altS)
		}
		return outcome{}
	}
	if allOK && c.Shape == "twice" {
		if res.err != nil {
			return violationf("spurious-error", "%s: strconv accepts both texts but Parse failed: %v", desc, res.err)
		}
		if len(res.vals) != 1 || !numEqual(k, res.vals[0], wants[1]) {
			return violationf("value", "%s: two captures into one scalar field: it holds %s, want the value of the later capture (strconv gives int=%d uint=%d float=%v)", desc, fmtVals(res.vals), wants[1].i, wants[1].u, wants[1].f)
		}
		return outcome{}
	}
	if allOK {
		if res.err != nil {
			return violationf("spurious-error", "%s: strconv accepts the text but Parse failed: %v", desc, res.err)
		}
		if len(res.vals) != len(wants) {
			return violationf("value", "%s: %d values stored, want %d (%s)", desc, len(res.vals), len(wants), fmtVals(res.vals))
		}
		for i, w := range wants {
			if !numEqual(k, res.vals[i], w) {
				return violationf("value", "%s: element %d holds %s, strconv gives int=%d uint=%d float=%v", desc, i, fmtVals(res.vals[i:i+1]), w.i, w.u, w.f)
			}
		}
		return outcome{}
	}
	// strconv rejects: Parse must fail, located at the first captured token, naming the conversion
	if res.err == nil {
		return violationf("silent-value", "%s: strconv rejects the text but Parse succeeded with %s", desc, fmtVals(res.vals))
	}
	perr, ok := res.err.(participle.Error)
	if !ok {
		return violationf("error-type", "%s: error %v (%T) is not a participle.Error", desc, res.err, res.err)
	}
	first := toks[0]
	if c.Shape == "slice" || c.Shape == "twice" || c.Shape == "quotedslice" || c.Shape == "listed" {
		first = toks[firstBad] // every element is a capture of its own, located at the failing one
	}
	if perr.Position() != first.Pos {
		sig := "error-pos"
		// known finding F2: the capture range starts at the raw cursor, so the position is that of the elided token in front
		for _, t := range lr.toks {
			if t.Pos == perr.Position() && strings.TrimSpace(t.Value) == "" && t.Pos.Offset+len(t.Value) == first.Pos.Offset {
				sig = "F2-token-capture-leading-elided"
			}
		}
		return violationf(sig, "%s: conversion error positioned at %v, want the first captured token at %v: %v", desc, perr.Position(), first.Pos, res.err)
	}
	if !strings.Contains(perr.Message(), "strconv.Parse") {
		return violationf("error-msg", "%s: error does not name the conversion: %q", desc, perr.Message())
	}
	return outcome{}
}

var c17Words = []string{"Inf", "+Inf", "-Inf", "inf", "infinity", "-Infinity", "NaN", "nan", "+NaN", "abc", "1a", "--1", "0x", "1e", "e1", "_1", "1_", "1__0",
	".5", "5.", "-.5", "1e3", "1E+3", "1e-3", "-1e3", "1e400", "-1e400", "1e39", "3.4028235e38", "3.4028236e38", "1e-46", "0x1p-2", "0X1P+3", "0x1.8p1", "0x1p", "1_000", "1_0.5", "0b101", "0B2", "0o17", "0O8", "017", "08", "007", "+7", "-0", "+0", "0", "00", "-00",
	"99999999999999999999", "-99999999999999999999", "1.0", "1.5", "0.1", "1e2", "١٢"}

func genNumText(t *rapid.T) (string, bool) {
	switch rapid.IntRange(0, 9).Draw(t, "tk") {
	case 0, 1:
		return rapid.SampledFrom(c17Words).Draw(t, "word"), true
	case 2:
		n := rapid.Int64().Draw(t, "any")
		return strconv.FormatInt(n, 10), false
	case 3:
		f := rapid.Float64().Draw(t, "anyf")
		return strconv.FormatFloat(f, byte(rapid.SampledFrom([]rune{'g', 'e', 'f', 'x'}).Draw(t, "fmt")), -1, 64), true
	default:
		// boundary of a width, +-1, in some base / decoration
		bits := rapid.SampledFrom([]int{8, 16, 32, 64}).Draw(t, "bits")
		var mag uint64
		neg := false
		switch rapid.IntRange(0, 3).Draw(t, "bound") {
		case 0: // max signed
			mag = 1<<(bits-1) - 1
		case 1: // min signed
			mag = 1 << (bits - 1)
			neg = true
		case 2: // max unsigned
			if bits == 64 {
				mag = math.MaxUint64
			} else {
				mag = 1<<bits - 1
			}
		default:
			mag = 1 << (bits - 1)
		}
		switch rapid.IntRange(-1, 1).Draw(t, "delta") {
		case -1:
			mag--
		case 1:
			if mag != math.MaxUint64 {
				mag++
			} else {
				// one past MaxUint64 cannot be held in mag: write it out
				return "18446744073709551616", true
			}
		}
		base := rapid.SampledFrom([]int{10, 10, 16, 8, 2}).Draw(t, "base")
		s := strconv.FormatUint(mag, base)
		switch base {
		case 16:
			s = rapid.SampledFrom([]string{"0x", "0X"}).Draw(t, "hx") + s
		case 8:
			s = rapid.SampledFrom([]string{"0o", "0"}).Draw(t, "oc") + s
		case 2:
			s = "0b" + s
		}
		if rapid.IntRange(0, 5).Draw(t, "us") == 0 && len(s) > 3 {
			s = s[:len(s)-2] + "_" + s[len(s)-2:]
		}
		if neg || rapid.IntRange(0, 5).Draw(t, "neg") == 0 {
			s = "-" + s
		} else if rapid.IntRange(0, 7).Draw(t, "plus") == 0 {
			s = "+" + s
		}
		return s, true
	}
}

func TestC17(t *testing.T) {
	runProp(t, "C17", c17Rule, func(t *rapid.T, r *vstat.Run) {
		k := numKinds[rapid.IntRange(0, len(numKinds)-1).Draw(t, "kind")]
		c := &c17Case{Kind: k.name, Shape: rapid.SampledFrom([]string{"scalar", "scalar", "ptr", "slice", "slicecap", "signed", "signedptr", "nested", "twice", "padded", "outer", "after", "negated", "quoted", "quotedslice", "parts", "listed", "typedlit"}).Draw(t, "shape")}
		nt := false
		switch c.Shape {
		case "slice", "slicecap":
			n := rapid.IntRange(1, 3).Draw(t, "n")
			for i := 0; i < n; i++ {
				s, b := genNumText(t)
				c.Texts = append(c.Texts, s)
				nt = nt || b
			}
		case "listed":
			n := rapid.IntRange(1, 3).Draw(t, "n")
			for i := 0; i < n; i++ {
				s, b := genNumText(t)
				if s == "unit" {
					s = "1"
				}
				c.Texts = append(c.Texts, s)
				nt = nt || b
			}
			c.Spaces = rapid.SampledFrom([]string{" ", "", "  "}).Draw(t, "sp")
		case "quoted", "quotedslice":
			n := 1
			if c.Shape == "quotedslice" {
				n = rapid.IntRange(1, 3).Draw(t, "n")
			}
			for i := 0; i < n; i++ {
				s, b := genNumText(t)
				if rapid.IntRange(0, 5).Draw(t, "emptytext") == 0 {
					s, b = "", true // strconv rejects the empty text like any other malformed number
				}
				c.Texts = append(c.Texts, s)
				nt = nt || b
			}
			c.Spaces = rapid.SampledFrom([]string{" ", "", "  "}).Draw(t, "sp")
		case "parts":
			s, b := genNumText(t)
			nt = b
			s = strings.TrimLeft(s, "+-")
			if s == "" {
				s = "1"
			}
			if rapid.Bool().Draw(t, "leadsign") {
				c.Texts = append(c.Texts, rapid.SampledFrom([]string{"-", "+"}).Draw(t, "sign"))
			}
			switch rapid.IntRange(0, 3).Draw(t, "tail") {
			case 0:
				c.Texts = append(c.Texts, s)
			case 1: // an exponent written apart: 1e +5
				c.Texts = append(c.Texts, rapid.SampledFrom([]string{"1e", "2.5e", "1E", "0x1p", "9e"}).Draw(t, "mant"), rapid.SampledFrom([]string{"-", "+"}).Draw(t, "esign"), rapid.SampledFrom([]string{"5", "2", "400", "0", "x"}).Draw(t, "exp"))
				nt = true
			default:
				s2, _ := genNumText(t)
				s2 = strings.TrimLeft(s2, "+-")
				if s2 == "" {
					s2 = "0"
				}
				c.Texts = append(c.Texts, s, rapid.SampledFrom([]string{"-", "+"}).Draw(t, "sign2"), s2)
			}
			c.Spaces = rapid.SampledFrom([]string{"", "", " "}).Draw(t, "sp")
		case "twice":
			s1, b1 := genNumText(t)
			s2, b2 := genNumText(t)
			nt = b1 || b2
			c.Texts = []string{s1, s2}
			c.Spaces = rapid.SampledFrom([]string{"", "", " "}).Draw(t, "sp")
		case "padded":
			s, b := genNumText(t)
			nt = b
			c.Texts = []string{s + rapid.SampledFrom([]string{" ", "\t", " "}).Draw(t, "pad")}
		case "signed", "signedptr":
			s, b := genNumText(t)
			nt = b
			sign := ""
			s = strings.TrimLeft(s, "+-")
			if s == "" {
				s = "1"
			}
			sign = rapid.SampledFrom([]string{"-", "+"}).Draw(t, "sign")
			c.Texts = []string{sign, s}
			c.Spaces = rapid.SampledFrom([]string{"", "", " "}).Draw(t, "sp")
		default:
			s, b := genNumText(t)
			nt = b
			c.Texts = []string{s}
			if c.Shape == "after" || c.Shape == "outer" || c.Shape == "negated" {
				c.Spaces = rapid.SampledFrom([]string{"", "", " ", "\n"}).Draw(t, "sp")
			}
		}
		if (c.Shape == "signed" || c.Shape == "signedptr" || c.Shape == "parts" || c.Shape == "slicecap") && rapid.IntRange(0, 39).Draw(t, "par") == 0 {
			c.Par = rapid.SampledFrom([]int{2, 4, 8}).Draw(t, "goroutines")
		}
		o := checkC17(c, r)
		if nt {
			r.NonTrivial(mustJSON(c), func() any { return c })
		}
		report(t, r, o, c)
	})
}

func TestC17Replay(t *testing.T) {
	replayAll(t, "C17", func(raw json.RawMessage) outcome {
		var c c17Case
		if err := json.Unmarshal(raw, &c); err != nil {
			return violationf("harness", "bad replay: %v", err)
		}
		return checkC17(&c, nil)
	})
}
