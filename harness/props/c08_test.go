package props

import (
	"bytes"
	"encoding/json"
	"fmt"
	"reflect"
	"runtime/debug"
	"strings"
	"testing"

	"github.com/alecthomas/participle/v2"
	"github.com/alecthomas/participle/v2/lexer"
	"pgregory.net/rapid"

	"verifharness/fixtures"
	"verifharness/gram"
	"verifharness/vstat"
)

// ---- C08: left-recursive grammars are rejected at build time, so parsing terminates ----

type c08Case struct {
	G      *gram.Grammar `json:"grammar,omitempty"`
	Static string        `json:"static,omitempty"`
	Input  string        `json:"input,omitempty"`
	Text   string        `json:"grammar_text,omitempty"`
}

// ---- static fixtures: direct struct recursion (cannot be expressed with reflect.StructOf) ----

type lrHead struct { // Self at the head: left recursive
	L *lrHead `@@`
	V string  `@Ident`
}
type lrTail struct { // Self after a consumed token: fine
	V string  `@Ident`
	L *lrTail `@@?`
}
type lrAfterOptional struct { // Self after an optional term: left recursive
	O string           `@Int?`
	L *lrAfterOptional `@@`
	V string           `@Ident`
}
type lrAfterStar struct {
	O []string     `@Int*`
	L *lrAfterStar `@@`
	V string       `";"`
}
type lrLaterAltMulti struct { // head of a later alternative after a multi-term alternative
	A string           `  @Ident ";"`
	L *lrLaterAltMulti `| @@ "+"`
}
type lrLaterAltSingle struct {
	A string            `  @Ident`
	L *lrLaterAltSingle `| @@ "+"`
}
type lrAfterLookahead struct {
	L *lrAfterLookahead `(?= Ident ) @@`
	V string            `@Ident`
}
type lrInGroupPlus struct {
	L []*lrInGroupPlus `( @@ )+`
	V string           `@Ident`
}
type lrInNegation struct {
	L *lrInNegation `~( @@ ";" ) @@?`
	V string        `@Ident`
}
type lrIndirectA struct {
	B *lrIndirectB `@@`
	V string       `@Ident`
}
type lrIndirectB struct {
	O string       `@Int?`
	A *lrIndirectA `@@`
}
type okIndirectA struct {
	B *okIndirectB `@@`
	V string       `@Ident`
}
type okIndirectB struct {
	O string       `@Int`
	A *okIndirectA `@@?`
}
type okAfterPlus struct { // + must consume: not left recursive
	O []string     `@Int+`
	L *okAfterPlus `@@?`
}
type okAfterNonEmpty struct {
	O string           `( @Int? @Ident? )!`
	L *okAfterNonEmpty `@@?`
}
type okParenExpr struct {
	Open string       `"(" `
	E    *okParenExpr `@@ ")"`
	V    string       `| @Ident`
}

// recursion that runs through a later member of a union whose first member is user code (Parseable)
type lrUVal interface{ isLRUVal() }
type lrUNum struct{ V string }

func (lrUNum) isLRUVal() {}
func (n *lrUNum) Parse(lex *lexer.PeekingLexer) error {
	t := lex.Peek()
	if t.EOF() || t.Value == "" || t.Value[0] < '0' || t.Value[0] > '9' {
		return participle.NextMatch
	}
	n.V = lex.Next().Value
	return nil
}

type lrUSum struct {
	L  lrUVal `@@`
	Op string `@"+"`
	R  lrUVal `@@`
}

func (lrUSum) isLRUVal() {}

type lrURoot struct {
	V lrUVal `@@`
}

type staticLR struct {
	name  string
	lr    bool
	build func() (bool, error)
	parse func(in string) (depth int, err error, panicMsg string)
}

func mkStatic[G any](name string, lr bool, opts ...participle.Option) staticLR {
	return staticLR{name: name, lr: lr, build: func() (bool, error) {
		p, err := participle.Build[G](opts...)
		return p != nil, err
	}, parse: func(in string) (int, error, string) {
		var depth int
		var perr error
		pm := guard(func() {
			p, err := participle.Build[G](opts...)
			if err != nil {
				perr = err
				return
			}
			var buf bytes.Buffer
			_, perr = p.ParseString("f", in, participle.Trace(&buf))
			depth = traceDepth(buf.String())
		})
		return depth, perr, pm
	}}
}

var staticLRs = []staticLR{
	mkStatic[lrHead]("lrHead", true), mkStatic[lrTail]("lrTail", false), mkStatic[lrAfterOptional]("lrAfterOptional", true),
	mkStatic[lrAfterStar]("lrAfterStar", true), mkStatic[lrLaterAltMulti]("lrLaterAltMulti", true), mkStatic[lrLaterAltSingle]("lrLaterAltSingle", true),
	mkStatic[lrAfterLookahead]("lrAfterLookahead", true), mkStatic[lrInGroupPlus]("lrInGroupPlus", true), mkStatic[lrInNegation]("lrInNegation", true),
	mkStatic[lrIndirectA]("lrIndirectA", true), mkStatic[okIndirectA]("okIndirectA", false), mkStatic[okAfterPlus]("okAfterPlus", false),
	mkStatic[okAfterNonEmpty]("okAfterNonEmpty", false), mkStatic[okParenExpr]("okParenExpr", false),
	mkStatic[lrURoot]("lrUnionParseableFirst", true, participle.Union[lrUVal](&lrUNum{}, lrUSum{})),
	mkStatic[lrURoot]("lrUnionParseableLast", true, participle.Union[lrUVal](lrUSum{}, &lrUNum{})),
}

func traceDepth(trace string) int {
	max := 0
	for _, line := range strings.Split(trace, "\n") {
		n := 0
		for n < len(line) && line[n] == ' ' {
			n++
		}
		if n/2 > max {
			max = n / 2
		}
	}
	return max
}

const c08Rule = "systems of 1-4 mutually referring productions (recursion through single- and multi-member unions) in which every " +
	"reference placement is drawn from: head of first/later alternative, after single-/multi-term alternatives, after optional / " +
	"starred / lookahead prefixes, inside groups, +, !, ~, lookahead bodies, nested alternatives, and look-alikes with a consuming term " +
	"in front, built from any one of the productions; plus 16 static fixtures with direct struct recursion or recursion through a union with a user-code member and the repository's example grammars (none left-recursive); oracle: independent nullability fix-point + left-edge " +
	"reachability on the IR -- Build must fail iff some reachable production reaches itself before consuming; accepted grammars are " +
	"parsed on sampled inputs under a crash journal and their Trace depth must stay <= 4*(grammar size+10)*(tokens+1); non-trivial = " +
	"the reference graph has a cycle (left-recursive or a consuming look-alike); distinct by SHA-256 of the grammar"

func hasCycle(g *gram.Grammar) bool {
	// any production that can reach itself through references
	n := len(g.Prods)
	adj := make([]map[int]bool, n)
	for i, p := range g.Prods {
		adj[i] = map[int]bool{}
		p.Expr.Walk(func(e *gram.Expr) {
			if e.Kind == gram.KSub {
				if e.Uni >= 0 {
					for _, m := range g.Unions[e.Uni].Members {
						adj[i][m] = true
					}
				} else {
					adj[i][e.Prod] = true
				}
			}
		})
	}
	for s := 0; s < n; s++ {
		seen := map[int]bool{}
		stack := []int{}
		for q := range adj[s] {
			stack = append(stack, q)
		}
		for len(stack) > 0 {
			q := stack[len(stack)-1]
			stack = stack[:len(stack)-1]
			if q == s {
				return true
			}
			if seen[q] {
				continue
			}
			seen[q] = true
			for m := range adj[q] {
				stack = append(stack, m)
			}
		}
	}
	return false
}

func checkC08Build(c *c08Case, r *vstat.Run) (outcome, *gram.Built) {
	if strings.HasPrefix(c.Static, "example:") {
		// the repository's example grammars (ported as fixtures, built when the test binary starts): none is left-recursive
		built, msg := fixtures.ExampleBuild(strings.TrimPrefix(c.Static, "example:"))
		if r != nil {
			r.Eval()
			r.Count("example_grammar")
		}
		if !built {
			return violationf("rejected-non-left-recursive", "Build rejected the example grammar %s, which is not left recursive: %s", c.Static, msg), nil
		}
		return outcome{}, nil
	}
	if c.Static != "" {
		for _, s := range staticLRs {
			if s.name != c.Static {
				continue
			}
			var ok bool
			var err error
			if r != nil {
				r.Journal(c, "Build of a static recursive grammar")
			}
			pm := guard(func() { ok, err = s.build() })
			if r != nil {
				r.JournalDone()
				r.Eval()
				r.Count("static_fixture")
				r.NonTrivial("static:"+c.Static, func() any { return c })
			}
			if pm != "" {
				return violationf("panic", "Build of %s: %s", c.Static, pm), nil
			}
			if s.lr && ok {
				return violationf("F13-left-recursion-missed", "Build accepted the left-recursive grammar %s", c.Static), nil
			}
			if !s.lr && !ok {
				return violationf("rejected-non-left-recursive", "Build rejected %s, which is not left recursive: %v", c.Static, err), nil
			}
			if !s.lr && c.Input != "" {
				if r != nil {
					r.Journal(c, "parse with a static recursive grammar")
				}
				depth, _, pm := s.parse(c.Input)
				if r != nil {
					r.JournalDone()
				}
				if pm != "" {
					return violationf("parse-panic", "parsing %q with %s: %s", c.Input, c.Static, pm), nil
				}
				if limit := 40 * (len(strings.Fields(c.Input)) + 1); depth > limit {
					return violationf("depth", "parsing %q with %s: recursion depth %d exceeds %d", c.Input, c.Static, depth, limit), nil
				}
			}
			return outcome{}, nil
		}
		return violationf("harness", "unknown fixture %s", c.Static), nil
	}
	lr, witness := c.G.LeftRecursive()
	var b *gram.Built
	var err error
	if r != nil {
		r.Journal(c, "Build of a generated recursive grammar")
	}
	pm := guard(func() { b, err = gram.Build(c.G) })
	if r != nil {
		r.JournalDone()
		r.Eval()
		if lr {
			r.Count("left_recursive")
		} else {
			r.Count("not_left_recursive")
		}
		if hasCycle(c.G) {
			r.Count("reference_graph_has_cycle")
			r.NonTrivial(mustJSON(c.G), func() any {
				cc := *c
				cc.Text = c.G.String()
				return cc
			})
		}
	}
	if pm != "" {
		return violationf("panic", "Build %s\n%s", pm, c.G.String()), nil
	}
	isLRerr := err != nil && strings.Contains(err.Error(), "left recursion")
	switch {
	case lr && err == nil:
		return violationf("F13-left-recursion-missed", "Build accepted a grammar in which P%d re-enters itself before consuming a token\n%s", witness, c.G.String()), nil
	case !lr && isLRerr:
		return violationf("rejected-non-left-recursive", "Build reported left recursion for a grammar without one: %v\n%s", err, c.G.String()), nil
	case !lr && err != nil:
		return violationf("build", "Build failed for another reason: %v\n%s", err, c.G.String()), nil
	}
	// the same grammar with the root union itself as the grammar type
	var uerr error
	if pm := guard(func() { uerr = gram.BuildUnionRoot(c.G) }); pm != "" {
		return violationf("panic", "Build[U0] %s\n%s", pm, c.G.String()), nil
	}
	if lr && uerr == nil {
		return violationf("F13-left-recursion-missed", "Build accepted, with the root union as the grammar type, a grammar in which P%d re-enters itself before consuming a token\n%s", witness, c.G.String()), nil
	}
	if !lr && uerr != nil {
		return violationf("build", "Build with the root union as the grammar type failed: %v\n%s", uerr, c.G.String()), nil
	}
	if lr {
		return outcome{}, nil
	}
	return outcome{}, b
}

func checkC08Parse(c *c08Case, b *gram.Built, r *vstat.Run) outcome {
	lx, err := b.Lex(c.Input)
	if err != nil {
		return outcome{}
	}
	_, _, _, _, expensive := runModel(b, lx, false)
	if expensive {
		if r != nil {
			r.Count("skipped_expensive")
		}
		return outcome{}
	}
	if r != nil {
		r.Journal(c, "parse with an accepted recursive grammar")
	}
	var buf bytes.Buffer
	var perr error
	pm := guard(func() { _, perr = b.P.ParseString("f", c.Input, participle.Trace(&buf)) })
	if r != nil {
		r.JournalDone()
		r.Count("parses_of_accepted_grammars")
	}
	_ = perr
	if pm != "" {
		if strings.Contains(pm, "did not progress") {
			return outcome{} // the library's own grammar-bug class (nullable alternative), outside the statement
		}
		sig := "parse-panic"
		if isHang(pm) {
			sig = "hang"
		}
		return violationf(sig, "parsing %q: %s\n%s", c.Input, pm, c.G.String())
	}
	depth := traceDepth(buf.String())
	ntok := len(lx.NonElided())
	if limit := 4 * (c.G.Size() + 10) * (ntok + 1); depth > limit {
		return violationf("depth", "parsing %q: recursion depth %d exceeds %d (grammar size %d, %d tokens)\n%s", c.Input, depth, limit, c.G.Size(), ntok, c.G.String())
	}
	return outcome{}
}

func TestC08(t *testing.T) {
	debug.SetMaxStack(64 << 20)
	runProp(t, "C08", c08Rule, func(t *rapid.T, r *vstat.Run) {
		if rapid.IntRange(0, 99).Draw(t, "example") == 0 {
			c := &c08Case{Static: "example:" + rapid.SampledFrom(fixtures.Examples).Draw(t, "examplegrammar")}
			o, _ := checkC08Build(c, r)
			report(t, r, o, c)
			return
		}
		if rapid.IntRange(0, 24).Draw(t, "static") == 0 {
			s := staticLRs[rapid.IntRange(0, len(staticLRs)-1).Draw(t, "fixture")]
			c := &c08Case{Static: s.name}
			if !s.lr {
				c.Input = rapid.SampledFrom([]string{"a", "a b c", "1 a", "( ( a ) )", "1 2 3 a b", "a ;", ""}).Draw(t, "sinput")
			}
			o, _ := checkC08Build(c, r)
			report(t, r, o, c)
			return
		}
		g, used := gram.GenRecSystem(t)
		c := &c08Case{G: g}
		o, b := checkC08Build(c, r)
		for k := range used {
			r.Count("placement_" + k)
		}
		report(t, r, o, c)
		if b == nil || o.failed() {
			return
		}
		for i := 0; i < 2; i++ {
			toks := gram.GenInput(t, g)
			cc := &c08Case{G: g, Input: gram.RenderMinimal(g, toks)}
			report(t, r, checkC08Parse(cc, b, r), cc)
		}
	})
}

func TestC08Replay(t *testing.T) {
	debug.SetMaxStack(64 << 20)
	replayAll(t, "C08", func(raw json.RawMessage) outcome {
		var c c08Case
		if err := json.Unmarshal(raw, &c); err != nil {
			return violationf("harness", "bad replay: %v", err)
		}
		o, b := checkC08Build(&c, nil)
		if o.failed() || b == nil || c.Input == "" {
			return o
		}
		return checkC08Parse(&c, b, nil)
	})
}

var _ = reflect.TypeOf
var _ = fmt.Sprint
