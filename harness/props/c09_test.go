package props

import (
	"bytes"
	"encoding/json"
	"fmt"
	"reflect"
	"strings"
	"sync"
	"testing"
	"time"

	"github.com/alecthomas/participle/v2"
	"github.com/alecthomas/participle/v2/ebnf"
	"github.com/alecthomas/participle/v2/lexer"
	"pgregory.net/rapid"

	"verifharness/fixtures"
	"verifharness/gram"
	"verifharness/lexgen"
	"verifharness/vstat"
)

// ---- C09: parsers and lexer definitions are safe for concurrent and repeated use ----

// tokenList is a grammar that accepts any token stream of a lexer definition.
type tokenList struct {
	Tokens []lexer.Token `( @~"\x00" )*`
}

type c09Op struct {
	Obj   int    `json:"obj"`   // index into the workload's shared objects
	Kind  string `json:"kind"`  // string | bytes | reader | lex | ebnf-string (String()) | drain
	Input int    `json:"input"` // index into the object's inputs
}

type c09Obj struct {
	Kind    string          `json:"kind"` // grammar | rules | rules-parser | mapped | ebnf | fixture
	G       *gram.Grammar   `json:"grammar,omitempty"`
	RS      *lexgen.RuleSet `json:"rules,omitempty"`
	Fixture string          `json:"fixture,omitempty"`
	Inputs  []string        `json:"inputs"`
}

type c09Case struct {
	Objects    []c09Obj  `json:"objects"`
	Goroutines [][]c09Op `json:"goroutines"` // per goroutine: its calls in order
	History    []c09Op   `json:"history"`    // calls made sequentially on the shared objects before the goroutines start
}

// sharedObj is a live shared object plus a way to compute the expected result on a fresh instance.
type sharedObj struct {
	spec   *c09Obj
	call   func(kind string, in string) any // on the shared instance
	expect func(kind string, in string) any // on a fresh instance used alone (or a baseline)
	// accepts: what an instance that shares nothing with the rest of the process does with the input, according to
	// the reference parser (generated grammars only; known=false when the reference does not evaluate the case)
	accepts func(in string) (ok, known bool)
}

type callResult struct {
	AST  any
	Toks []lexer.Token
	Err  string
	Text string
}

func errStr(err error) string {
	if err == nil {
		return ""
	}
	return err.Error()
}

func cloneToks(ts []lexer.Token) []lexer.Token { return append([]lexer.Token(nil), ts...) }

var c09MappedLex = lexer.MustSimple([]lexer.SimpleRule{
	{Name: "String", Pattern: `"(\\.|[^"\\])*"`}, {Name: "Ident", Pattern: `[a-zA-Z_]+`}, {Name: "Int", Pattern: `[0-9]+`},
	{Name: "Punct", Pattern: `[-+;(),=]`}, {Name: "WS", Pattern: `\s+`},
})

type c09Mapped struct {
	Items []string      `( @(String | Ident | Int | Punct)`
	Toks  []lexer.Token `| @WS )*`
}

func buildC09Mapped() *participle.Parser[c09Mapped] {
	return participle.MustBuild[c09Mapped](participle.Lexer(c09MappedLex), participle.Upper("Ident"), participle.Unquote("String"))
}

// buildC09MappedGlobal: three mappers registered for every token type (Map with no symbols) in front of mappers for
// three different token types. Which mappers a token goes through, and in which order, must not depend on what other
// goroutines lex at the same time (a per-token mapper list assembled in a buffer shared by the parser's lexers, C09-r11m1).
func buildC09MappedGlobal() *participle.Parser[c09Mapped] {
	ws := c09MappedLex.Symbols()["WS"]
	tag := func(mark string) participle.Option {
		return participle.Map(func(t lexer.Token) (lexer.Token, error) {
			if !t.EOF() && t.Type != ws {
				t.Value += mark
			}
			return t, nil
		})
	}
	return participle.MustBuild[c09Mapped](participle.Lexer(c09MappedLex), tag("'"), tag("^"), tag("~"),
		participle.Upper("Ident"),
		participle.Map(func(t lexer.Token) (lexer.Token, error) { t.Value = "#" + t.Value; return t, nil }, "Int"),
		participle.Map(func(t lexer.Token) (lexer.Token, error) { t.Value = "<" + t.Value + ">"; return t, nil }, "Punct", "String"))
}

// buildC09Interp: string interpolation -- the mapper of String tokens parses the text of the string with the very
// parser it belongs to (a user function may call back into the library, from any goroutine).
func buildC09Interp() *participle.Parser[c09Mapped] {
	var p *participle.Parser[c09Mapped]
	p = participle.MustBuild[c09Mapped](participle.Lexer(c09MappedLex), participle.Unquote("String"),
		participle.Map(func(t lexer.Token) (lexer.Token, error) {
			if inner, err := p.ParseString("inner", t.Value); err == nil {
				t.Value = fmt.Sprintf("<%d items: %s>", len(inner.Items), strings.Join(inner.Items, ","))
			}
			return t, nil
		}, "String"))
	return p
}

func parserCalls[G any](p *participle.Parser[G]) func(kind, in string) any {
	return func(kind, in string) any {
		var r callResult
		switch kind {
		case "bytes":
			// the buffer is the caller's: it is refilled as soon as the call has returned
			buf := []byte(in)
			ast, err := p.ParseBytes("f", buf)
			for i := range buf {
				buf[i] = '#'
			}
			r.AST, r.Err = ast, errStr(err)
		case "reader":
			ast, err := p.Parse("f", strings.NewReader(in))
			r.AST, r.Err = ast, errStr(err)
		case "lex":
			toks, err := p.Lex("f", strings.NewReader(in))
			r.Toks, r.Err = cloneToks(toks), errStr(err)
		case "ebnf-string":
			r.Text = p.String()
		case "lex-past-eof":
			// a lexer of the parser's definition, drained and then asked three more times
			l, err := p.Lexer().Lex("f", strings.NewReader(in))
			if err != nil {
				r.Err = errStr(err)
				break
			}
			for extra := 0; extra < 3; {
				t, err := l.Next()
				if err != nil {
					r.Err = errStr(err)
					break
				}
				r.Toks = append(r.Toks, t)
				if t.EOF() {
					extra++
				}
				if len(r.Toks) > len(in)+8 {
					break
				}
			}
		case "string-trailing":
			// per-call options must stay per call
			ast, err := p.ParseString("f", in, participle.AllowTrailing(true))
			r.AST, r.Err = ast, errStr(err)
		case "string-trace":
			var buf bytes.Buffer
			ast, err := p.ParseString("f", in, participle.Trace(&buf))
			r.AST, r.Err, r.Text = ast, errStr(err), buf.String()
		default:
			ast, err := p.ParseString("f", in)
			r.AST, r.Err = ast, errStr(err)
		}
		return r
	}
}

func defCalls(def lexer.Definition) func(kind, in string) any {
	return func(kind, in string) any {
		var r callResult
		run := lexAllNoGuard(def, in)
		r.Toks, r.Err = run.toks, errStr(run.err)
		return r
	}
}

func lexAllNoGuard(def lexer.Definition, in string) lexRun {
	var r lexRun
	var l lexer.Lexer
	if sd, ok := def.(lexer.StringDefinition); ok {
		l, r.err = sd.LexString("f", in)
	} else {
		l, r.err = def.Lex("f", strings.NewReader(in))
	}
	if r.err != nil {
		return r
	}
	for {
		tk, err := l.Next()
		if err != nil {
			r.err = err
			return r
		}
		r.toks = append(r.toks, tk)
		if tk.EOF() || len(r.toks) > len(in)+8 {
			return r
		}
	}
}

// materialise builds the shared object and its oracle.
func materialise(o *c09Obj) (*sharedObj, string) {
	s := &sharedObj{spec: o}
	switch o.Kind {
	case "grammar":
		types := o.G.Types()
		shared, err := gram.BuildTypes(o.G, types)
		if err != nil {
			return nil, err.Error()
		}
		s.call = parserCalls(shared.P)
		s.accepts = func(in string) (bool, bool) {
			lx, err := shared.Lex(in)
			if err != nil {
				return false, false
			}
			_, ok, _, _, expensive := runModel(shared, lx, false)
			return ok, !expensive
		}
		s.expect = func(kind, in string) any {
			fresh, err := gram.BuildTypes(o.G, types)
			if err != nil {
				return callResult{Err: "build: " + err.Error()}
			}
			return parserCalls(fresh.P)(kind, in)
		}
	case "rules":
		def, err := lexer.New(o.RS.ToRules())
		if err != nil {
			return nil, err.Error()
		}
		s.call = defCalls(def)
		s.expect = func(kind, in string) any {
			fresh, _ := lexer.New(o.RS.ToRules())
			return defCalls(fresh)(kind, in)
		}
	case "rules-parser":
		def, err := lexer.New(o.RS.ToRules())
		if err != nil {
			return nil, err.Error()
		}
		p, err := participle.Build[tokenList](participle.Lexer(def))
		if err != nil {
			return nil, err.Error()
		}
		s.call = parserCalls(p)
		s.expect = func(kind, in string) any {
			fd, _ := lexer.New(o.RS.ToRules())
			fp, err := participle.Build[tokenList](participle.Lexer(fd))
			if err != nil {
				return callResult{Err: "build: " + err.Error()}
			}
			return parserCalls(fp)(kind, in)
		}
	case "mapped":
		s.call = parserCalls(buildC09Mapped())
		s.expect = func(kind, in string) any { return parserCalls(buildC09Mapped())(kind, in) }
	case "mapped-global":
		s.call = parserCalls(buildC09MappedGlobal())
		s.expect = func(kind, in string) any { return parserCalls(buildC09MappedGlobal())(kind, in) }
	case "interp":
		s.call = parserCalls(buildC09Interp())
		s.expect = func(kind, in string) any { return parserCalls(buildC09Interp())(kind, in) }
	case "fresh-sexpr":
		// a parser with static types built for this workload alone, so that derived parsers (ParserForProduction)
		// are used for the first time while other goroutines use the parent
		mk := func() func(kind, in string) any {
			parse, sub, ebnfText := fixtures.SexprCalls()
			return func(kind, in string) any {
				switch kind {
				case "sub-parse":
					ast, err := sub("(1 (2) x)")
					return callResult{AST: ast, Err: errStr(err)}
				case "ebnf-string":
					return callResult{Text: ebnfText()}
				}
				ast, err := parse(in)
				return callResult{AST: ast, Err: errStr(err)}
			}
		}
		if p, _, _ := fixtures.SexprCalls(); p == nil {
			return nil, "the sexpr example grammar does not build"
		}
		s.call = mk()
		s.expect = func(kind, in string) any { return mk()(kind, in) }
	case "ebnf":
		f := func(kind, in string) any {
			ast, err := ebnf.ParseString(in)
			return callResult{AST: ast, Err: errStr(err)}
		}
		s.call = f
		// the package-level parser cannot be re-created: the baseline is computed before the goroutines start
		s.expect = nil
	case "fixture":
		fx := fixtures.Get(o.Fixture)
		if fx == nil {
			return nil, "unknown fixture"
		}
		s.call = func(kind, in string) any {
			switch kind {
			case "lex":
				toks, err := fx.Lex("f", []byte(in))
				return callResult{Toks: cloneToks(toks), Err: errStr(err)}
			case "ebnf-string":
				return callResult{Text: fx.EBNF()}
			case "lex-past-eof":
				var cr callResult
				l, err := fx.Def().Lex("f", strings.NewReader(in))
				if err != nil {
					return callResult{Err: errStr(err)}
				}
				for extra := 0; extra < 3; {
					t, err := l.Next()
					if err != nil {
						cr.Err = errStr(err)
						break
					}
					cr.Toks = append(cr.Toks, t)
					if t.EOF() {
						extra++
					}
					if len(cr.Toks) > len(in)+8 {
						break
					}
				}
				return cr
			case "sub-parse":
				// a parser derived for an inner production shares the grammar's parser
				if fx.Sub == nil {
					return callResult{}
				}
				ast, err := fx.Sub()
				return callResult{AST: ast, Err: errStr(err)}
			case "string-trailing":
				ast, err := fx.Parse("string", "f", []byte(in), participle.AllowTrailing(true))
				return callResult{AST: ast, Err: errStr(err)}
			case "string-trace":
				var buf bytes.Buffer
				ast, err := fx.Parse("string", "f", []byte(in), participle.Trace(&buf))
				return callResult{AST: ast, Err: errStr(err), Text: buf.String()}
			}
			ast, err := fx.Parse(kind, "f", []byte(in))
			return callResult{AST: ast, Err: errStr(err)}
		}
		s.expect = nil
	default:
		return nil, "unknown object kind"
	}
	return s, ""
}

const c09Rule = "workloads: 1-4 shared objects (generated parsers whose nodes carry Tokens/[]lexer.Token fields, stateful definitions with " +
	"back-references (closers that refer to one group or to two), a token-list parser over such a definition, a parser with two mappers (Upper + Unquote), " +
	"a parser with three all-token mappers in front of mappers for three token types, the package-level ebnf " +
	"parser, a parser whose mapper calls the parser it belongs to, ported example parsers) x 2-16 goroutines released together, each running a drawn list of ParseString / ParseBytes / " +
	"Parse / Lex / String / LexString+drain calls on generated inputs, after a drawn sequential history of calls on the same objects; " +
	"oracle: every result, compared after all goroutines have finished, deep-equals the result of the same call on a fresh instance " +
	"used alone (a baseline taken before any other use for objects that cannot be re-created), and for generated grammars the fresh instance's verdict equals the reference parser's (a new instance does not depend on what else the process built); the test binary is built with -race and " +
	"any DATA RACE report fails the check; non-trivial = >=4 goroutines share one object with >=2 distinct inputs; distinct by SHA-256 " +
	"of the workload. The Go scheduler is not controlled: this is evidence about interleavings, not coverage of them."

// the symbol table of the default (text/scanner) lexer as it is when the test binary starts
var c09ScannerSyms = sortedSyms(lexer.TextScannerLexer.Symbols())

func checkC09(c *c09Case, r *vstat.Run) outcome {
	// what Symbols() of the default lexer hands out is the caller's: a caller that edits its copy (adds a symbol for
	// a decorating definition, removes one) changes nothing for anybody else
	if got := sortedSyms(lexer.TextScannerLexer.Symbols()); got != c09ScannerSyms {
		return violationf("symbols-changed", "the symbol table of the default lexer is %s, it was %s when the process started (a caller edited the map an earlier Symbols() call returned)", got, c09ScannerSyms)
	}
	mine := lexer.TextScannerLexer.Symbols()
	delete(mine, "Comment")
	mine["EOL"] = -99
	objs := make([]*sharedObj, len(c.Objects))
	for i := range c.Objects {
		s, msg := materialise(&c.Objects[i])
		if msg != "" {
			if r != nil {
				r.Count("object_not_buildable")
			}
			return outcome{}
		}
		objs[i] = s
	}
	type key struct {
		obj   int
		kind  string
		input int
	}
	expected := map[key]any{}
	var allOps []c09Op
	allOps = append(allOps, c.History...)
	for _, g := range c.Goroutines {
		allOps = append(allOps, g...)
	}
	var pm string
	// expected results on fresh instances (or, where impossible, baseline before any other use)
	if m := guard(func() {
		for _, op := range allOps {
			k := key{op.Obj, op.Kind, op.Input}
			if _, ok := expected[k]; ok {
				continue
			}
			o := objs[op.Obj]
			in := o.spec.Inputs[op.Input%len(o.spec.Inputs)]
			if o.expect != nil {
				kind := op.Kind
				if kind == "bytes" || kind == "reader" {
					kind = "string" // the entry points differ in where the text comes from, not in what they return
				}
				expected[k] = o.expect(kind, in)
			} else {
				expected[k] = o.call(op.Kind, in)
			}
		}
	}); m != "" {
		pm = m
	}
	if strings.Contains(pm, "the call is blocked") {
		// not a slow call: a call that waits for something that never happens, with nobody else using the object
		return violationf("deadlock", "a call on an object used alone never returns: %s\nworkload %s", pm, firstN(mustJSON(c), 3000))
	}
	if pm != "" {
		if r != nil {
			r.Count("panic_left_to_C06_C07")
		}
		return outcome{}
	}
	// a fresh instance is only "used in isolation" if what it does is independent of everything else the process has
	// built or parsed: its verdict is the reference parser's
	checked := map[key]bool{}
	for _, op := range allOps {
		k := key{op.Obj, op.Kind, op.Input}
		if checked[k] {
			continue
		}
		checked[k] = true
		want := expected[k]
		o := objs[k.obj]
		if o.accepts == nil || (k.kind != "string" && k.kind != "bytes" && k.kind != "reader") {
			continue
		}
		cr, isCR := want.(callResult)
		if !isCR || strings.HasPrefix(cr.Err, "build: ") {
			continue
		}
		in := o.spec.Inputs[k.input%len(o.spec.Inputs)]
		if ok, known := o.accepts(in); known && ok != (cr.Err == "") {
			return violationf("fresh-not-isolated", "a freshly built parser of the grammar, used alone, returns error %q for input %q although the grammar %s it (reference parser): what a new instance does depends on what else the process has built or parsed\ngrammar:\n%s",
				cr.Err, in, map[bool]string{true: "accepts", false: "rejects"}[ok], o.spec.G.String())
		}
	}
	type got struct {
		op  c09Op
		who string
		res any
	}
	var mu sync.Mutex
	var results []got
	record := func(who string, op c09Op, res any) {
		mu.Lock()
		results = append(results, got{op, who, res})
		mu.Unlock()
	}
	var panics []string
	runOp := func(who string, op c09Op) {
		defer func() {
			if rec := recover(); rec != nil {
				mu.Lock()
				panics = append(panics, fmt.Sprintf("%s %v: %v", who, op, rec))
				mu.Unlock()
			}
		}()
		o := objs[op.Obj]
		in := o.spec.Inputs[op.Input%len(o.spec.Inputs)]
		record(who, op, o.call(op.Kind, in))
	}
	if r != nil {
		r.Journal(c, "concurrent workload (a DATA RACE report or a crash is attributed to it)")
	}
	for _, op := range c.History {
		runOp("history", op)
	}
	start := make(chan struct{})
	var wg sync.WaitGroup
	for gi, ops := range c.Goroutines {
		wg.Add(1)
		go func(gi int, ops []c09Op) {
			defer wg.Done()
			<-start
			for _, op := range ops {
				runOp(fmt.Sprintf("goroutine %d", gi), op)
			}
		}(gi, ops)
	}
	close(start)
	finished := make(chan struct{})
	go func() { wg.Wait(); close(finished) }()
	// the calls are short (milliseconds). Goroutines that have not come back after two minutes *during which this
	// process used next to no CPU time* are blocked; as long as it is busy it is merely slow (the driver's time
	// budget deals with that).
	idle, lastCPU := 0, processCPU()
wait:
	for {
		select {
		case <-finished:
			break wait
		case <-time.After(10 * time.Second):
			cpu := processCPU()
			if cpu-lastCPU < 500*time.Millisecond {
				idle++
			} else {
				idle = 0
			}
			lastCPU = cpu
			if idle >= 12 {
				return violationf("deadlock", "the concurrent calls of this workload have not all returned and the process has been idle for two minutes: some call blocks for ever")
			}
		}
	}
	if r != nil {
		r.JournalDone()
		r.Eval()
		r.Add("calls", int64(len(results)))
		perObj := map[int]map[int]bool{}
		gPerObj := map[int]map[int]bool{}
		for gi, ops := range c.Goroutines {
			for _, op := range ops {
				if perObj[op.Obj] == nil {
					perObj[op.Obj], gPerObj[op.Obj] = map[int]bool{}, map[int]bool{}
				}
				perObj[op.Obj][op.Input] = true
				gPerObj[op.Obj][gi] = true
			}
		}
		for o := range perObj {
			if len(gPerObj[o]) >= 4 && len(perObj[o]) >= 2 {
				r.NonTrivial(mustJSON(c), func() any { return c })
				break
			}
		}
		for _, o := range c.Objects {
			r.Count("object_" + o.Kind)
		}
	}
	if len(panics) > 0 {
		return violationf("panic", "a call on a shared object panicked: %s\nworkload %s", panics[0], firstN(mustJSON(c), 3000))
	}
	// compare only now: a result that is rewritten by later calls (shared buffers) must be noticed too
	for _, g := range results {
		want := expected[key{g.op.Obj, g.op.Kind, g.op.Input}]
		if !reflect.DeepEqual(g.res, want) {
			o := objs[g.op.Obj]
			in := o.spec.Inputs[g.op.Input%len(o.spec.Inputs)]
			return violationf("result-differs", "%s: %s call %q on shared %s object with input %q returned\n %s\nbut the same call on a fresh instance used alone returns\n %s",
				g.who, g.op.Kind, g.op.Kind, o.spec.Kind, in, firstN(fmt.Sprintf("%+v", g.res), 600), firstN(fmt.Sprintf("%+v", want), 600))
		}
	}
	return outcome{}
}

func firstN(s string, n int) string {
	if len(s) > n {
		return s[:n] + "…"
	}
	return s
}

var c09MappedInputs = []string{`foo "Two" bar`, `a = "x\ty" ; b`, `"unterminated`, `HELLO world 12 "q\"q"`, `x  "é"  y(z)`, ``, `"a" "b" c d`}

var c09EBNFInputs = []string{
	"A = \"a\" B* .\nB = <ident> | \"(\" A \")\" .",
	"Expr = Term ((\"+\" | \"-\") Term)* .\nTerm = <int> | ~\"x\" | (?! \"y\") <ident> .",
	"A = ",
	"X = (\"a\"+)? \"b\"! .",
	"",
}

func TestC09(t *testing.T) {
	fxs := fixtures.All()
	runProp(t, "C09", c09Rule, func(t *rapid.T, r *vstat.Run) {
		c := &c09Case{}
		nobj := rapid.IntRange(1, 3).Draw(t, "nobj")
		for i := 0; i < nobj; i++ {
			var o c09Obj
			switch k := rapid.IntRange(0, 9).Draw(t, "okind"); {
			case k <= 2:
				o.Kind = "grammar"
				o.G = gram.GenGrammar(t, gram.GenOpts{MaxProds: 3, MaxDepth: 3, TrapPercent: 10, PosStyles: false, Parseables: true})
				for j := 0; j < 4; j++ {
					o.Inputs = append(o.Inputs, gram.Render(t, o.G, gram.GenInput(t, o.G), "r"))
				}
			case k <= 4:
				o.Kind = rapid.SampledFrom([]string{"rules", "rules-parser"}).Draw(t, "rk")
				g := lexgen.GenRuleSet(t, lexgen.RuleOpts{})
				o.RS = g.RS
				for j := 0; j < 5; j++ {
					in := g.GenInput(t)
					o.Inputs = append(o.Inputs, strings.ToValidUTF8(in, "?"))
				}
			case k == 5:
				o.Kind = "mapped"
				o.Inputs = c09MappedInputs
			case k == 8:
				// definitions that cache compiled back-reference patterns: different delimiters must not share an entry
				o.Kind = rapid.SampledFrom([]string{"rules", "rules-parser"}).Draw(t, "brk")
				if fam := rapid.IntRange(0, 2).Draw(t, "brfamily"); fam == 2 {
					// closers that refer to two groups: entries that agree on one group and differ on the other
					// must not share a compiled pattern (C09-r11m2)
					rs, gen := lexgen.GenBackrefFamily(t)
					o.RS = rs
					for j := 0; j < 8; j++ {
						o.Inputs = append(o.Inputs, gen(t))
					}
				} else if fam == 0 {
					o.RS = &lexgen.RuleSet{States: []lexgen.StateSpec{
						{Name: "Root", Rules: []lexgen.RuleSpec{{Name: "Fence", Pattern: "`+", Action: "push", Target: "Code"}, {Name: "Text", Pattern: "[^`]+"}}},
						{Name: "Code", Rules: []lexgen.RuleSpec{{Name: "FenceEnd", Pattern: `\0`, Action: "pop"}, {Name: "Code", Pattern: "[^`]+|`"}}},
					}}
					o.Inputs = []string{"a `x` b", "a ``x ` y`` b", "```go\nx``y\n``` z", "` `` ` `` `", "````````", "no fence", "`unterminated"}
				} else {
					o.RS = &lexgen.RuleSet{States: []lexgen.StateSpec{
						{Name: "Root", Rules: []lexgen.RuleSpec{{Name: "Heredoc", Pattern: `<<(\w+)\n`, Action: "push", Target: "Doc"}, {Name: "Word", Pattern: `\w+`}, {Name: "ws", Pattern: `\s+`}}},
						{Name: "Doc", Rules: []lexgen.RuleSpec{{Name: "End", Pattern: `\1\b`, Action: "pop"}, {Name: "Line", Pattern: `[^\n]*\n?`}}},
					}}
					o.Inputs = []string{"a <<EOT\nhello\nEOT b", "<<X\nEOT\nX <<EOT\nX\nEOT done", "<<A\nB\n", "plain words", "<<EOT\nEOTX\nEOT"}
				}
			case k == 6:
				o.Kind = "ebnf"
				o.Inputs = c09EBNFInputs
			case (k == 7 || k == 8) && len(fxs) > 0:
				o.Kind = "fixture"
				f := fxs[rapid.IntRange(0, len(fxs)-1).Draw(t, "fixture")]
				if rapid.Bool().Draw(t, "withsub") {
					// prefer a fixture that also has a parser derived for an inner production
					var subs []*fixtures.Fixture
					for _, x := range fxs {
						if x.Sub != nil {
							subs = append(subs, x)
						}
					}
					if len(subs) > 0 {
						f = subs[rapid.IntRange(0, len(subs)-1).Draw(t, "subfixture")]
					}
				}
				o.Fixture = f.Name
				o.Inputs = append(o.Inputs, f.Samples...)
				o.Inputs = append(o.Inputs, f.Samples[0][:len(f.Samples[0])/2])
			case k == 9 && rapid.Bool().Draw(t, "freshsexpr"):
				o.Kind = "fresh-sexpr"
				o.Inputs = []string{`1 (2 3) 4`, `(define (f x) (g x "s" #y))`, `[a : 1] #(1 2)`, `(1 (2`, ``}
			default:
				o.Kind = rapid.SampledFrom([]string{"mapped", "interp", "mapped-global"}).Draw(t, "mappedkind")
				o.Inputs = c09MappedInputs
				if o.Kind == "interp" {
					o.Inputs = append([]string{`say "hello world 1" twice`, `"a \"b c\" d" "x"`}, c09MappedInputs...)
				}
			}
			if o.Kind != "rules" && o.Kind != "ebnf" && len(o.Inputs) > 0 {
				// an input with something after a complete parse (what AllowTrailing is about)
				o.Inputs = append(o.Inputs, o.Inputs[0]+" "+o.Inputs[len(o.Inputs)-1])
			}
			if o.Kind == "grammar" {
				// cost guard (ambiguous recursive grammars backtrack exponentially, see known finding F19): keep the
				// inputs the reference parser gets through within its step budget
				if b, err := gram.Build(o.G); err == nil {
					var keep []string
					for _, in := range o.Inputs {
						if lx, err := b.Lex(in); err == nil {
							if _, _, _, _, expensive := runModel(b, lx, false); expensive {
								r.Count("skipped_expensive")
								continue
							}
						}
						keep = append(keep, in)
					}
					if len(keep) == 0 {
						keep = []string{""}
					}
					o.Inputs = keep
				}
			}
			c.Objects = append(c.Objects, o)
		}
		kindsFor := func(o *c09Obj) []string {
			switch o.Kind {
			case "rules":
				return []string{"drain"}
			case "ebnf":
				return []string{"string"}
			case "fresh-sexpr":
				return []string{"string", "sub-parse", "sub-parse", "ebnf-string", "string"}
			case "fixture":
				return []string{"string", "bytes", "reader", "lex", "ebnf-string", "string-trailing", "string-trace", "sub-parse", "ebnf-string", "lex-past-eof", "lex-past-eof"}
			}
			return []string{"string", "string", "bytes", "reader", "lex", "ebnf-string", "string-trailing", "string-trace", "lex-past-eof"}
		}
		genOp := func() c09Op {
			oi := rapid.IntRange(0, len(c.Objects)-1).Draw(t, "obj")
			o := &c.Objects[oi]
			return c09Op{Obj: oi, Kind: rapid.SampledFrom(kindsFor(o)).Draw(t, "opkind"), Input: rapid.IntRange(0, len(o.Inputs)-1).Draw(t, "input")}
		}
		nh := rapid.IntRange(0, 4).Draw(t, "nhist")
		for i := 0; i < nh; i++ {
			c.History = append(c.History, genOp())
		}
		ng := rapid.SampledFrom([]int{2, 3, 4, 4, 6, 8, 8, 12, 16}).Draw(t, "ngoroutines")
		for gi := 0; gi < ng; gi++ {
			var ops []c09Op
			n := rapid.IntRange(1, 6).Draw(t, "ncalls")
			for j := 0; j < n; j++ {
				ops = append(ops, genOp())
			}
			c.Goroutines = append(c.Goroutines, ops)
		}
		report(t, r, checkC09(c, r), c)
	})
}

func TestC09Replay(t *testing.T) {
	replayAll(t, "C09", func(raw json.RawMessage) outcome {
		var c c09Case
		if err := json.Unmarshal(raw, &c); err != nil {
			return violationf("harness", "bad replay: %v", err)
		}
		// schedule-dependent failures may need several attempts to re-occur
		for i := 0; i < 20; i++ {
			if o := checkC09(&c, nil); o.failed() {
				return o
			}
		}
		return outcome{}
	})
}

var _ = bytes.NewReader
