package props

import (
	"encoding/json"
	"fmt"
	"math"
	"reflect"
	"sort"
	"strings"
	"sync"
	"testing"

	"github.com/alecthomas/participle/v2"
	"github.com/alecthomas/participle/v2/lexer"
	"pgregory.net/rapid"

	"verifharness/gram"
	"verifharness/vstat"
)

func replayGram(t *testing.T, id string, check func(c *gramCase, b *gram.Built) outcome) {
	replayAll(t, id, func(raw json.RawMessage) outcome {
		var c gramCase
		if err := json.Unmarshal(raw, &c); err != nil {
			return violationf("harness", "bad replay: %v", err)
		}
		b, msg := buildGrammar(c.G)
		if msg != "" {
			return violationf("build", "%s", msg)
		}
		return check(&c, b)
	})
}

// ---------------------------------------------------------------------------------------------
// C02: abandoned attempts leave no trace

const c02Rule = "generated grammars biased to trap shapes (capture(s) ... [completed | half-failed sub-production] ... failing tail " +
	"inside an alternative, ?, *, ~, (?= ), (?! ) next to a continuation that matches the same tokens), lookahead biased to values " +
	"that allow the attempt to be abandoned; oracle: every value in the AST stems from a capture on the accepted derivation of the " +
	"reference parser and unwritten fields are zero (one-directional); non-trivial = the accepted derivation passed >=1 abandoned " +
	"attempt that had consumed >=1 token and recorded >=1 capture; distinct by SHA-256 of (grammar, input)"

func checkC02(c *gramCase, b *gram.Built, r *vstat.Run) outcome {
	p := parseWith(b, c.Input, c.AllowTrailing)
	if p.skipped != "" {
		if r != nil {
			r.Count("skipped_" + p.skipped)
		}
		return outcome{}
	}
	if r != nil {
		r.Eval()
	}
	if p.panicMsg != "" {
		if r != nil {
			r.Count("parse_panicked_left_to_C06")
		}
		return outcome{}
	}
	if (p.err == nil) != p.wantOK {
		if r != nil {
			r.Count("acceptance_differs_left_to_C01")
		}
		return outcome{}
	}
	if !p.wantOK {
		if r != nil {
			r.Count("rejected")
		}
		return outcome{}
	}
	if r != nil {
		r.Count("accepted")
		m := p.m
		if m.AbandonedWithCaps > 0 {
			r.Count("accepted_after_abandoned_attempt_with_captures")
			r.NonTrivial(mustJSON(c), func() any {
				cc := *c
				cc.Text = c.G.String()
				return cc
			})
		}
		if m.AbandonedWithSub > 0 {
			r.Count("..._and_a_completed_subproduction_inside")
		}
		if m.AbandonedSubFail > 0 {
			r.Count("..._and_a_half_failed_subproduction_inside")
		}
	}
	cmp := &gram.Comparer{B: b, L: p.lx}
	cmp.Leaks(reflect.ValueOf(p.ast.V), p.wantNode, 0, "root")
	if len(cmp.Mis) > 0 {
		return violationf("leak", "the AST holds values that were not captured on the accepted path:\n%s%s\nAST: %s", fmtMis(cmp.Mis), describeCase(c), gram.Plain(reflect.ValueOf(p.ast.V)))
	}
	return outcome{}
}

func TestC02(t *testing.T) {
	runProp(t, "C02", c02Rule, func(t *rapid.T, r *vstat.Run) {
		o := gram.GenOpts{MaxProds: 5, MaxDepth: 3, TrapPercent: 70, PosStyles: false, Profiles: true, Parseables: true, Statics: true, NameElided: rapid.IntRange(0, 6).Draw(t, "named") == 0}
		g := gram.GenGrammar(t, o)
		// bias the lookahead upwards: an attempt must be abandonable for a leak to show
		g.Lookahead = rapid.SampledFrom([]int{1, 2, 3, 5, 5, 99999, 99999, -1}).Draw(t, "k2")
		b, msg := buildGrammar(g)
		if msg != "" {
			r.Count("build_failed_left_to_C19")
			return
		}
		r.Count("grammars")
		for i := 0; i < 4; i++ {
			toks := gram.GenInput(t, g)
			c := &gramCase{G: g, Input: gram.Render(t, g, toks, "r")}
			report(t, r, checkC02(c, b, r), c)
		}
	})
}

func TestC02Replay(t *testing.T) {
	replayGram(t, "C02", func(c *gramCase, b *gram.Built) outcome { return checkC02(c, b, nil) })
}

// ---------------------------------------------------------------------------------------------
// C10: the parse depends only on the non-elided tokens

const c10Rule = "generated grammars that do not name elided types x token sequences, each rendered to two texts that differ only in " +
	"elided tokens (whitespace/comment runs at the start, between tokens, at the end, runs of 254-766 elided tokens; elision sets {WS}, {WS,Comment}; also through parsers derived for inner productions); after " +
	"confirming with Parser.Lex that the non-elided (type,text) sequences are equal, acceptance and all captured fields must be " +
	"equal; 15% of grammars name elided types and are compared with the reference parser's 'first such token before the next " +
	"ordinary token' rule; non-trivial = the renderings differ by >=3 elided tokens and the parse abandoned >=1 attempt, or a " +
	"choice point starts on an elided token; distinct by SHA-256 of (grammar, both inputs)"

func countElided(lx *gram.Lexed) int {
	n := 0
	for _, t := range lx.Toks {
		if t.Elided {
			n++
		}
	}
	return n
}

func sameVToks(a, b []gram.VTok) bool {
	if len(a) != len(b) {
		return false
	}
	for i := range a {
		if a[i] != b[i] {
			return false
		}
	}
	return true
}

func checkC10(c *gramCase, b *gram.Built, r *vstat.Run) outcome {
	lx1, err1 := b.Lex(c.Input)
	lx2, err2 := b.Lex(c.Input2)
	if err1 != nil || err2 != nil || !sameVToks(lx1.NonElided(), lx2.NonElided()) {
		if r != nil {
			r.Count("skipped_renderings_not_equivalent")
		}
		return outcome{}
	}
	m, _, _, _, expensive := runModel(b, lx1, c.AllowTrailing)
	if expensive {
		if r != nil {
			r.Count("skipped_expensive")
		}
		return outcome{}
	}
	var opts []participle.ParseOption
	if c.AllowTrailing {
		opts = append(opts, participle.AllowTrailing(true))
	}
	var a1, a2 *gram.Root
	var e1, e2 error
	if p := guard(func() {
		a1, e1 = b.P.ParseString("f", c.Input, opts...)
		a2, e2 = b.P.ParseString("f", c.Input2, opts...)
	}); p != "" {
		if r != nil {
			r.Count("parse_panicked_left_to_C06")
		}
		return outcome{}
	}
	if r != nil {
		r.Eval()
		d := countElided(lx1) - countElided(lx2)
		if d < 0 {
			d = -d
		}
		if d >= 3 {
			r.Count("renderings_differ_by_ge_3_elided_tokens")
		}
		if m.ChoiceAtElided > 0 {
			r.Count("choice_point_starts_on_elided_token")
		}
		if e1 == nil {
			r.Count("accepted")
		}
		if (d >= 3 && m.Abandoned > 0) || m.ChoiceAtElided > 0 {
			r.NonTrivial(mustJSON(c), func() any {
				cc := *c
				cc.Text = c.G.String()
				return cc
			})
		}
	}
	if (e1 == nil) != (e2 == nil) {
		return violationf("acceptance", "inputs with identical non-elided tokens are not both accepted: %q -> %v ; %q -> %v\n%s", c.Input, e1, c.Input2, e2, c.G.String())
	}
	if e1 != nil {
		return outcome{}
	}
	v1, v2 := reflect.ValueOf(a1.V), reflect.ValueOf(a2.V)
	if p1, p2 := gram.PlainNoElided(b.G, v1), gram.PlainNoElided(b.G, v2); p1 != p2 {
		sig := "ast"
		if gram.PlainMasked(v1) == gram.PlainMasked(v2) && (gram.HoldsElidedToken(b.G, v1) || gram.HoldsElidedToken(b.G, v2)) {
			sig = "F2-token-capture-leading-elided"
		}
		return violationf(sig, "captured fields differ between two renderings of the same tokens:\n %q -> %s\n %q -> %s\n%s", c.Input, p1, c.Input2, p2, c.G.String())
	}
	return outcome{}
}

func TestC10(t *testing.T) {
	runProp(t, "C10", c10Rule, func(t *rapid.T, r *vstat.Run) {
		if rapid.IntRange(0, 11).Draw(t, "proot") == 0 {
			// the root production is user code that takes whatever tokens the parser hands it
			g := &gram.Grammar{Lookahead: 1}
			if rapid.IntRange(0, 3).Draw(t, "profile") == 0 {
				g.Profile = "scanner"
			}
			es := g.Prof().ElideSets
			g.Elide = es[rapid.IntRange(0, len(es)-1).Draw(t, "elideset")]
			for i := 0; i < 4; i++ {
				var toks []gram.VTok
				for j, n := 0, rapid.IntRange(0, 6).Draw(t, "ntoks"); j < n; j++ {
					toks = append(toks, rapid.SampledFrom(g.Prof().Vocab).Draw(t, "tok"))
				}
				c := &gramCase{G: g, PRoot: true, Input: gram.Render(t, g, toks, "a"), Input2: gram.Render(t, g, toks, "b")}
				if rapid.IntRange(0, 3).Draw(t, "minimal") == 0 {
					c.Input2 = gram.RenderMinimal(g, toks)
				}
				report(t, r, checkC10PRoot(c, r), c)
			}
			return
		}
		if rapid.IntRange(0, 14).Draw(t, "derived") == 0 {
			// a parser derived for an inner production elides what the grammar's parser elides
			if c, b, toks := genDerived(t, r); c != nil {
				c.DerivedAlt = gram.Render(t, c.G, toks, "e")
				if rapid.IntRange(0, 3).Draw(t, "minimal") == 0 {
					c.DerivedAlt = gram.RenderMinimal(c.G, toks)
				}
				report(t, r, checkC10Derived(c, c.DerivedAlt, b, r), c)
			}
			return
		}
		named := rapid.IntRange(0, 99).Draw(t, "named") < 15
		o := gram.GenOpts{MaxProds: 4, MaxDepth: 4, TrapPercent: 20, NameElided: named, Profiles: true, Parseables: true}
		g := gram.GenGrammar(t, o)
		b, msg := buildGrammar(g)
		if msg != "" {
			r.Count("build_failed_left_to_C19")
			return
		}
		r.Count("grammars")
		for i := 0; i < 3; i++ {
			toks := gram.GenInput(t, g)
			c := &gramCase{G: g, Input: gram.Render(t, g, toks, "a"), AllowTrailing: rapid.IntRange(0, 5).Draw(t, "trailing") == 0}
			if named {
				// second clause: explicitly named elided tokens follow the documented rule (reference parser)
				r.Count("cases_naming_elided_types")
				o := checkC01(c, b, nil)
				r.Eval()
				if o.failed() && o.sig == "F2-token-capture-leading-elided" {
					report(t, r, o, c)
				} else if o.failed() {
					o.msg = "grammar naming an elided type: " + o.msg
					report(t, r, o, c)
				}
				continue
			}
			c.Input2 = gram.Render(t, g, toks, "b")
			if rapid.IntRange(0, 3).Draw(t, "minimal") == 0 {
				c.Input2 = gram.RenderMinimal(g, toks)
			}
			if g.IsElided("Comment") && rapid.IntRange(0, 19).Draw(t, "longrun") == 0 {
				// hundreds of elided tokens in a row (comment, blank, comment, ...) at the end of one rendering, or
				// after its first token
				run := strings.Repeat(" #c#", rapid.SampledFrom([]int{127, 128, 130, 200, 383}).Draw(t, "runlen"))
				if i := strings.IndexAny(c.Input2, " \n\t"); i > 0 && rapid.Bool().Draw(t, "runinside") {
					c.Input2 = c.Input2[:i] + run + c.Input2[i:]
				} else {
					c.Input2 += run + " "
				}
				r.Count("case_with_a_run_of_hundreds_of_elided_tokens")
			}
			report(t, r, checkC10(c, b, r), c)
		}
	})
}

// checkC10PRoot: a root production implemented by user code sees the non-elided tokens, however the input is spaced.
func checkC10PRoot(c *gramCase, r *vstat.Run) outcome {
	p, err := gram.BuildPRoot(c.G)
	if err != nil {
		return violationf("build", "Build of a Parseable root failed: %v", err)
	}
	var a1, a2 *gram.PRoot
	var e1, e2 error
	if pm := guard(func() {
		a1, e1 = p.ParseString("f", c.Input)
		a2, e2 = p.ParseString("f", c.Input2)
	}); pm != "" {
		return violationf("panic", "Parseable root: %s", pm)
	}
	if r != nil {
		r.Eval()
		r.Count("parseable_root_cases")
		r.NonTrivial(mustJSON(c), func() any { return c })
	}
	if e1 != nil || e2 != nil {
		return violationf("acceptance", "a root production that accepts every token stream: %q -> %v ; %q -> %v (elide %v, lexer %q)", c.Input, e1, c.Input2, e2, c.G.Elide, c.G.Profile)
	}
	if strings.Join(a1.Vals, "\x00") != strings.Join(a2.Vals, "\x00") {
		return violationf("ast", "a Parseable root saw different tokens for two spacings of the same tokens: %q -> %q ; %q -> %q (elide %v)", c.Input, a1.Vals, c.Input2, a2.Vals, c.G.Elide)
	}
	return outcome{}
}

func TestC10Replay(t *testing.T) {
	replayAll(t, "C10", func(raw json.RawMessage) outcome {
		var c gramCase
		if err := json.Unmarshal(raw, &c); err != nil {
			return violationf("harness", "bad replay: %v", err)
		}
		if c.PRoot {
			return checkC10PRoot(&c, nil)
		}
		b, msg := buildGrammar(c.G)
		if msg != "" {
			return violationf("build", "%s", msg)
		}
		if c.Derived > 0 {
			return checkC10Derived(&c, c.DerivedAlt, b, nil)
		}
		if c.Input2 == "" {
			return checkC01(&c, b, nil)
		}
		return checkC10(&c, b, nil)
	})
}

// ---------------------------------------------------------------------------------------------
// C11: Pos / EndPos / Tokens describe exactly the consumed text

const c11Rule = "generated grammars whose productions carry Pos/EndPos/Tokens (plain fields, embedded mixin, convertible position type) " +
	"x accepted inputs with generated elided runs, plus a static family of three mutually recursive named types parsed through parsers derived for its " +
	"inner productions (ParserForProduction) before or after the grammar's own parser was used; oracle: (a) model-free invariants over the AST (every Tokens run is a contiguous " +
	"slice of Parser.Lex output, child run inside parent run, sibling runs disjoint, slice elements in input order, root run ends at the " +
	"last consumed token, Pos <= EndPos) and (b) exact values from the reference derivation (Tokens = raw[start:end], Pos = first " +
	"non-elided token, EndPos = position of raw[end]); non-trivial = some node was entered after an abandoned attempt or has an elided " +
	"token adjacent to a run boundary; distinct by SHA-256 of (grammar, input)"

type runInfo struct {
	path   string
	lo, hi int // raw index range [lo, hi)
	has    bool
	own    bool // the node itself has a Tokens field
}

// collectRuns walks the AST and checks the model-free invariants.
func collectRuns(v reflect.Value, raw []lexer.Token, byOffset map[int]int, path string, errs *[]string, checkPos bool) (self runInfo) {
	for v.Kind() == reflect.Ptr || v.Kind() == reflect.Interface {
		if v.IsNil() {
			return runInfo{}
		}
		v = v.Elem()
	}
	if v.Kind() != reflect.Struct {
		return runInfo{}
	}
	self.path = path
	tf := v.FieldByName("Tokens")
	if tf.IsValid() {
		toks := tf.Interface().([]lexer.Token)
		self.has, self.own = true, true
		if len(toks) == 0 {
			self.lo, self.hi = -1, -1
		} else {
			idx, ok := byOffset[toks[0].Pos.Offset]
			if !ok || raw[idx] != toks[0] {
				*errs = append(*errs, fmt.Sprintf("%s: Tokens[0] %#v is not a token of the lexed stream", path, toks[0]))
				return
			}
			for i, tk := range toks {
				if idx+i >= len(raw) || raw[idx+i] != tk {
					*errs = append(*errs, fmt.Sprintf("%s: Tokens is not a contiguous slice of the lexed stream at element %d", path, i))
					return
				}
			}
			self.lo, self.hi = idx, idx+len(toks)
		}
		pf, ef := v.FieldByName("Pos"), v.FieldByName("EndPos")
		if checkPos && pf.IsValid() && ef.IsValid() && len(toks) > 0 {
			pos := pf.Convert(reflect.TypeOf(lexer.Position{})).Interface().(lexer.Position)
			end := ef.Convert(reflect.TypeOf(lexer.Position{})).Interface().(lexer.Position)
			if pos.Offset > end.Offset {
				*errs = append(*errs, fmt.Sprintf("%s: Pos %v > EndPos %v", path, pos, end))
			}
		}
	}
	var kids []runInfo
	var scan func(v reflect.Value)
	scan = func(v reflect.Value) {
		for i := 0; i < v.NumField(); i++ {
			f := v.Field(i)
			name := v.Type().Field(i).Name
			if name == "Tokens" || name == "Pos" || name == "EndPos" || name == "PosMixin" {
				continue
			}
			if v.Type().Field(i).Anonymous && f.Kind() == reflect.Struct {
				// fields of a struct embedded by value belong to this node (the embedded struct is not a production)
				scan(f)
				continue
			}
			switch f.Kind() {
			case reflect.Slice:
				if f.Type().Elem().Kind() == reflect.Struct || f.Type().Elem().Kind() == reflect.Ptr || f.Type().Elem().Kind() == reflect.Interface {
					if f.Type() == reflect.TypeOf([]lexer.Token{}) {
						continue
					}
					prevHi := -1
					for j := 0; j < f.Len(); j++ {
						k := collectRuns(f.Index(j), raw, byOffset, fmt.Sprintf("%s.%s[%d]", path, name, j), errs, checkPos)
						if k.has && k.lo >= 0 {
							if k.lo < prevHi {
								*errs = append(*errs, fmt.Sprintf("%s: slice elements are not in input order (run starts at raw %d, previous ended at %d)", k.path, k.lo, prevHi))
							}
							prevHi = k.hi
							kids = append(kids, k)
						}
					}
				}
			case reflect.Struct, reflect.Ptr, reflect.Interface:
				if f.Type() == reflect.TypeOf(lexer.Token{}) {
					continue
				}
				k := collectRuns(f, raw, byOffset, path+"."+name, errs, checkPos)
				if k.has && k.lo >= 0 {
					kids = append(kids, k)
				}
			}
		}
	}
	scan(v)
	if self.has {
		for _, k := range kids {
			if self.lo < 0 || k.lo < self.lo || k.hi > self.hi {
				*errs = append(*errs, fmt.Sprintf("%s: child run [%d,%d) is not inside the parent run [%d,%d) of %s", k.path, k.lo, k.hi, self.lo, self.hi, path))
			}
		}
	}
	sort.Slice(kids, func(i, j int) bool { return kids[i].lo < kids[j].lo })
	for i := 1; i < len(kids); i++ {
		if kids[i].lo < kids[i-1].hi {
			*errs = append(*errs, fmt.Sprintf("sibling runs overlap: %s [%d,%d) and %s [%d,%d)", kids[i-1].path, kids[i-1].lo, kids[i-1].hi, kids[i].path, kids[i].lo, kids[i].hi))
		}
	}
	if !self.has && len(kids) > 0 {
		// a node without Tokens: propagate the hull of its children so the grandparent can still check containment
		self.has, self.lo, self.hi = true, kids[0].lo, kids[len(kids)-1].hi
		for _, k := range kids {
			if k.hi > self.hi {
				self.hi = k.hi
			}
		}
	}
	return self
}

func checkC11(c *gramCase, b *gram.Built, r *vstat.Run) outcome {
	p := parseWith(b, c.Input, c.AllowTrailing)
	if p.skipped != "" {
		if r != nil {
			r.Count("skipped_" + p.skipped)
		}
		return outcome{}
	}
	if p.panicMsg != "" || (p.err == nil) != p.wantOK {
		if r != nil {
			r.Count("panic_or_acceptance_difference_left_to_C01_C06")
		}
		return outcome{}
	}
	if !p.wantOK {
		if r != nil {
			r.Count("rejected")
		}
		return outcome{}
	}
	if r != nil {
		r.Eval()
	}
	// (a) model-free invariants
	namesElided := c.G.NamesElided()
	byOffset := map[int]int{}
	for i, tk := range p.lx.Raw {
		byOffset[tk.Pos.Offset] = i
	}
	var errs []string
	root := collectRuns(reflect.ValueOf(p.ast.V), p.lx.Raw, byOffset, "root", &errs, !namesElided)
	if root.own && root.lo >= 0 && root.hi != p.wantEnd {
		// "the root's run ends at the last token the parse consumed": the parse consumed raw[:wantEnd]
		errs = append(errs, fmt.Sprintf("root run ends at raw index %d but the parse consumed up to %d", root.hi, p.wantEnd))
	}
	if len(errs) > 0 {
		return violationf("invariant", "token-run invariants violated:\n %s\n%s", errs[0], describeCase(c))
	}
	// (b) exact values
	cmp := &gram.Comparer{B: b, L: p.lx, Positions: true, NamesElided: namesElided}
	cmp.Node(reflect.ValueOf(p.ast.V), p.wantNode, 0, "root")
	if r != nil {
		r.Add("nodes_checked", int64(cmp.PosNodes))
		if cmp.ElidedAdj > 0 {
			r.Count("case_with_elided_token_adjacent_to_node_boundary")
		}
		if p.m.Abandoned > 0 {
			r.Count("case_with_node_after_abandoned_attempt")
		}
		if cmp.PosNodes > 0 && (cmp.ElidedAdj > 0 || p.m.Abandoned > 0) {
			r.NonTrivial(mustJSON(c), func() any {
				cc := *c
				cc.Text = c.G.String()
				return cc
			})
		}
	}
	var pm []gram.Mismatch
	for _, m := range cmp.Mis {
		if m.Cat == "pos" || m.Cat == "endpos" || m.Cat == "tokens" {
			pm = append(pm, m)
		}
	}
	if len(pm) > 0 {
		return violationf("positions", "node positions / token lists differ from the text the node consumed:\n%s%s", fmtMis(pm), describeCase(c))
	}
	// the token lists and positions of an AST the caller still holds stay what they were while the parser goes on
	// parsing other documents of about the same size
	before := gram.Plain(reflect.ValueOf(p.ast.V))
	words := strings.Fields(c.Input)
	for i, j := 0, len(words)-1; i < j; i, j = i+1, j-1 {
		words[i], words[j] = words[j], words[i]
	}
	_ = guard(func() {
		_, _ = b.P.ParseString("g", strings.Join(words, " "))
		_, _ = b.P.ParseString("h", "x "+c.Input)
	})
	if after := gram.Plain(reflect.ValueOf(p.ast.V)); after != before {
		return violationf("later-parse", "the AST changed after the same parser parsed two other inputs:\n before %s\n after  %s\n%s", before, after, describeCase(c))
	}
	return outcome{}
}

// ---- parsers derived for inner productions (participle.ParserForProduction) of the static family SR4 ----

// genDerived draws a case: Input for the grammar's own parser (the history), Input2 for the parser derived for
// production c.Derived; toks are the tokens of Input2.
func genDerived(t *rapid.T, r *vstat.Run) (*gramCase, *gram.Built, []gram.VTok) {
	sg := gram.StaticGrammars()
	g := sg[len(sg)-1]
	g.Lookahead = rapid.SampledFrom(gram.Lookaheads).Draw(t, "k")
	es := g.Prof().ElideSets
	g.Elide = es[rapid.IntRange(0, len(es)-1).Draw(t, "elideset")]
	if rapid.Bool().Draw(t, "ci") {
		g.CI = []string{"Ident"}
	}
	b, msg := buildGrammar(g)
	if msg != "" {
		r.Count("build_failed_left_to_C19")
		return nil, nil, nil
	}
	c := &gramCase{G: g, Derived: rapid.IntRange(1, 2).Draw(t, "prod"), DerivedFirst: rapid.IntRange(0, 3).Draw(t, "derivedfirst") == 0}
	c.Input = gram.Render(t, g, gram.GenInput(t, g), "r")
	sub := *g
	sub.Unions = []gram.Union{{Members: []int{c.Derived}, Ptr: []bool{false}}}
	toks := gram.GenInput(t, &sub)
	c.Input2 = gram.Render(t, g, toks, "d")
	return c, b, toks
}

type derivedRun struct {
	lx       *gram.Lexed
	wantOK   bool
	wantNode *gram.Node
	ast      any
	err      error
	skip     string // non-empty: not judged
}

// runDerived parses input with the parser derived for c.Derived (after / before the grammar's parser parsed c.Input)
// and with the reference parser started at that production.
func runDerived(c *gramCase, b *gram.Built, input string) derivedRun {
	var d derivedRun
	lx, err := b.Lex(input)
	if err != nil {
		d.skip = "unlexable"
		return d
	}
	d.lx = lx
	m := gram.NewModel(b.G, lx.Toks)
	func() {
		defer func() {
			if rec := recover(); rec != nil {
				d.skip = "expensive"
			}
		}()
		d.wantOK, d.wantNode, _ = m.ParseProd(c.Derived)
	}()
	if d.skip != "" {
		return d
	}
	var have bool
	pm := guard(func() {
		if !c.DerivedFirst {
			_, _ = b.P.ParseString("f", c.Input)
		}
		d.ast, d.err, have = gram.DerivedParse(b, c.Derived, input)
		if c.DerivedFirst {
			_, _ = b.P.ParseString("f", c.Input)
			d.ast, d.err, have = gram.DerivedParse(b, c.Derived, input)
		}
	})
	if pm != "" {
		d.skip = "panic: " + pm
	} else if !have {
		d.skip = "no derived parser"
	}
	return d
}

func describeDerived(c *gramCase, input string) string {
	return fmt.Sprintf("parser derived for production P%d (ParserForProduction), input %q, the grammar's own parser parsed %q %s\n%s",
		c.Derived, input, c.Input, map[bool]string{true: "afterwards", false: "before"}[c.DerivedFirst], c.G.String())
}

// checkC01Derived: the derived parser means what the production means.
func checkC01Derived(c *gramCase, b *gram.Built, r *vstat.Run) outcome {
	d := runDerived(c, b, c.Input2)
	if strings.HasPrefix(d.skip, "panic: ") {
		return violationf("panic", "Parse panicked: %s\n%s", d.skip, describeDerived(c, c.Input2))
	}
	if d.skip != "" {
		return outcome{}
	}
	if r != nil {
		r.Eval()
		r.Count("case_with_a_parser_derived_for_an_inner_production")
		if d.wantOK {
			r.Count("accepted")
		} else {
			r.Count("rejected")
		}
	}
	if (d.err == nil) != d.wantOK {
		return violationf("acceptance", "acceptance differs: documented meaning accepts=%v, parser error=%v\n%s", d.wantOK, d.err, describeDerived(c, c.Input2))
	}
	if !d.wantOK {
		return outcome{}
	}
	cmp := &gram.Comparer{B: b, L: d.lx, Values: true}
	cmp.Node(reflect.ValueOf(d.ast), d.wantNode, -1, "root")
	if len(cmp.Mis) > 0 {
		return violationf(mismatchSig(cmp.Mis), "AST differs from the accepted derivation:\n%s%s\nAST: %s", fmtMis(cmp.Mis), describeDerived(c, c.Input2), gram.Plain(reflect.ValueOf(d.ast)))
	}
	return outcome{}
}

// checkC10Derived: Input2 and Text hold two renderings of the same tokens; the derived parser treats them alike.
func checkC10Derived(c *gramCase, other string, b *gram.Built, r *vstat.Run) outcome {
	d1, d2 := runDerived(c, b, c.Input2), runDerived(c, b, other)
	if d1.skip != "" || d2.skip != "" || !sameVToks(d1.lx.NonElided(), d2.lx.NonElided()) {
		if r != nil {
			r.Count("skipped_renderings_not_equivalent")
		}
		return outcome{}
	}
	if r != nil {
		r.Eval()
		r.Count("case_with_a_parser_derived_for_an_inner_production")
		if d1.err == nil {
			r.Count("accepted")
		}
	}
	if (d1.err == nil) != (d2.err == nil) {
		return violationf("acceptance", "inputs with identical non-elided tokens are not both accepted: %q -> %v ; %q -> %v\n%s", c.Input2, d1.err, other, d2.err, describeDerived(c, c.Input2))
	}
	if d1.err != nil {
		return outcome{}
	}
	if p1, p2 := gram.PlainNoElided(b.G, reflect.ValueOf(d1.ast)), gram.PlainNoElided(b.G, reflect.ValueOf(d2.ast)); p1 != p2 {
		return violationf("ast", "captured fields differ between two renderings of the same tokens:\n %q -> %s\n %q -> %s\n%s", c.Input2, p1, other, p2, describeDerived(c, c.Input2))
	}
	return outcome{}
}

// checkC11Derived: a parser derived for an inner production describes its nodes exactly like the grammar's own
// parser does, whatever the two parsers have parsed before.
func checkC11Derived(c *gramCase, b *gram.Built, r *vstat.Run) outcome {
	d := runDerived(c, b, c.Input2)
	if d.skip != "" || (d.err == nil) != d.wantOK {
		if r != nil {
			r.Count("derived_panic_or_acceptance_difference_left_to_C01_C06")
		}
		return outcome{}
	}
	if !d.wantOK {
		if r != nil {
			r.Count("rejected")
		}
		return outcome{}
	}
	if r != nil {
		r.Eval()
		r.Count("case_with_a_parser_derived_for_an_inner_production")
	}
	cmp := &gram.Comparer{B: b, L: d.lx, Positions: true}
	cmp.Node(reflect.ValueOf(d.ast), d.wantNode, -1, "root")
	if r != nil {
		r.Add("nodes_checked", int64(cmp.PosNodes))
		if cmp.PosNodes > 0 && cmp.ElidedAdj > 0 {
			r.NonTrivial(mustJSON(c), func() any {
				cc := *c
				cc.Text = c.G.String()
				return cc
			})
		}
	}
	var pmis []gram.Mismatch
	for _, mm := range cmp.Mis {
		if mm.Cat == "pos" || mm.Cat == "endpos" || mm.Cat == "tokens" {
			pmis = append(pmis, mm)
		}
	}
	if len(pmis) > 0 {
		return violationf("positions", "node positions / token lists differ from the text the node consumed:\n%s%s", fmtMis(pmis), describeDerived(c, c.Input2))
	}
	return outcome{}
}

func TestC11(t *testing.T) {
	runProp(t, "C11", c11Rule, func(t *rapid.T, r *vstat.Run) {
		if rapid.IntRange(0, 11).Draw(t, "derived") == 0 {
			// a family of named Go types: parsers for inner productions can be derived from the grammar's parser
			if c, b, _ := genDerived(t, r); c != nil {
				report(t, r, checkC11Derived(c, b, r), c)
			}
			return
		}
		o := gram.GenOpts{MaxProds: 5, MaxDepth: 4, TrapPercent: 15, PosStyles: true, Profiles: true, Parseables: true, DeepEmbeds: true, NameElided: rapid.IntRange(0, 9).Draw(t, "named") == 0}
		g := gram.GenGrammar(t, o)
		b, msg := buildGrammar(g)
		if msg != "" {
			r.Count("build_failed_left_to_C19")
			return
		}
		r.Count("grammars")
		for i := 0; i < 4; i++ {
			toks := gram.GenInput(t, g)
			c := &gramCase{G: g, Input: gram.Render(t, g, toks, "r"), AllowTrailing: rapid.IntRange(0, 4).Draw(t, "trailing") == 0}
			if g.IsElided("Comment") && !g.NamesElided() && rapid.IntRange(0, 19).Draw(t, "longrun") == 0 {
				// a licence header: hundreds of elided tokens (comment, blank, comment, ...) in front of the first node,
				// or after the first token
				run := strings.Repeat("#c# ", rapid.SampledFrom([]int{130, 200, 383}).Draw(t, "runlen"))
				if i := strings.IndexAny(c.Input, " \n\t"); i > 0 && rapid.Bool().Draw(t, "runinside") {
					c.Input = c.Input[:i] + " " + run + c.Input[i:]
				} else {
					c.Input = run + c.Input
				}
				r.Count("case_with_a_run_of_hundreds_of_elided_tokens")
			}
			report(t, r, checkC11(c, b, r), c)
		}
	})
}

func TestC11Replay(t *testing.T) {
	replayGram(t, "C11", func(c *gramCase, b *gram.Built) outcome {
		if c.Derived > 0 {
			return checkC11Derived(c, b, nil)
		}
		return checkC11(c, b, nil)
	})
}

// ---------------------------------------------------------------------------------------------
// C13: more lookahead never changes a successful parse

const c13Rule = "generated grammars without ~ / (?= ) / (?! ) x sampled and mutated inputs, each parsed by parsers built over the same " +
	"AST types with every lookahead of the ladder 0<1<2<3<5<MaxLookahead<unlimited (-1, -2, MinInt); oracle (metamorphic): success at k implies success " +
	"at every larger k' with a deeply equal AST (once per process also 100100 flat items and a production nested 12000 deep); non-trivial = the outcome differs somewhere along the ladder, or the input is accepted " +
	"at every k although the reference parser abandoned >=1 attempt; distinct by SHA-256 of (grammar, input)"

// every negative value means unlimited lookahead
var c13Ladder = []int{0, 1, 2, 3, 5, participle.MaxLookahead, 1 << 32, 1 << 40, -1, -2, -(1 << 32), math.MinInt}

type c13Parsers struct {
	g  *gram.Grammar
	bs []*gram.Built
}

func buildLadder(g *gram.Grammar) (*c13Parsers, string) {
	types := g.Types()
	ps := &c13Parsers{g: g}
	for _, k := range c13Ladder {
		var b *gram.Built
		var err error
		if p := guard(func() { b, err = gram.BuildTypes(g, types, participle.UseLookahead(k)) }); p != "" {
			return nil, "Build panicked: " + p
		}
		if err != nil {
			return nil, "Build failed: " + err.Error()
		}
		ps.bs = append(ps.bs, b)
	}
	return ps, ""
}

func checkC13(c *gramCase, ps *c13Parsers, r *vstat.Run) outcome {
	type res struct {
		ast *gram.Root
		err error
	}
	out := make([]res, len(c13Ladder))
	// bound the work with the reference parser at unlimited lookahead (worst case for backtracking)
	gInf := *c.G
	gInf.Lookahead = -1
	bInf := *ps.bs[len(ps.bs)-1]
	bInf.G = &gInf
	lx, err := bInf.Lex(c.Input)
	if err != nil {
		return outcome{}
	}
	m, _, _, _, expensive := runModel(&bInf, lx, c.AllowTrailing)
	if expensive {
		if r != nil {
			r.Count("skipped_expensive")
		}
		return outcome{}
	}
	var popts []participle.ParseOption
	if c.AllowTrailing {
		// what is left over may stay: the parse that gets there is still the same parse at every larger lookahead
		popts = append(popts, participle.AllowTrailing(true))
		if r != nil {
			r.Count("cases_with_trailing_input_allowed")
		}
	}
	for i, b := range ps.bs {
		i, b := i, b
		if p := guard(func() { out[i].ast, out[i].err = b.P.ParseString("f", c.Input, popts...) }); p != "" {
			for j := 0; j < i; j++ {
				if out[j].err == nil {
					return violationf("panic-at-larger-lookahead", "input %q parses with lookahead %d but panics with the larger lookahead %d: %s\n%s", c.Input, c13Ladder[j], c13Ladder[i], p, c.G.String())
				}
			}
			if r != nil {
				r.Count("parse_panicked_left_to_C06")
			}
			return outcome{}
		}
	}
	if r != nil {
		r.Eval()
		differs := false
		for i := 1; i < len(out); i++ {
			if (out[i].err == nil) != (out[0].err == nil) {
				differs = true
			}
		}
		if differs {
			r.Count("outcome_differs_along_ladder")
		}
		allOK := out[0].err == nil
		if allOK {
			r.Count("accepted_at_every_lookahead")
		}
		if differs || (allOK && m.Abandoned > 0) {
			r.NonTrivial(mustJSON(c), func() any {
				cc := *c
				cc.Text = c.G.String()
				return cc
			})
		}
	}
	for i := 0; i < len(out); i++ {
		if out[i].err != nil {
			continue
		}
		for j := i + 1; j < len(out); j++ {
			if out[j].err != nil {
				return violationf("monotone", "input %q parses with lookahead %d but fails with the larger lookahead %d: %v\n%s", c.Input, c13Ladder[i], c13Ladder[j], out[j].err, c.G.String())
			}
			if !reflect.DeepEqual(out[i].ast, out[j].ast) {
				return violationf("ast", "input %q parses to different ASTs with lookahead %d and %d:\n %s\n %s\n%s", c.Input, c13Ladder[i], c13Ladder[j],
					gram.Plain(reflect.ValueOf(out[i].ast.V)), gram.Plain(reflect.ValueOf(out[j].ast.V)), c.G.String())
			}
		}
	}
	return outcome{}
}

// checkC13Long: one very long input in which every item starts a choice point whose first alternative is abandoned
// after one token (more than 10^5 small backtracks in one parse); without the reference parser (the input is far
// beyond its step budget): every lookahead from 1 up must accept it with the same AST.
func checkC13Long(n int) outcome {
	g := &gram.Grammar{Lookahead: 1, Elide: []string{"WS"}, Unions: []gram.Union{{Members: []int{0}, Ptr: []bool{false}}}}
	assign := gram.Seq(gram.Cap(gram.Ref("Ident")), gram.Lit("+"), gram.Cap(gram.Ref("Int")))
	g.Prods = []*gram.Prod{{PosStyle: 3, Expr: gram.Group("*", gram.Alt(assign, gram.Cap(gram.Ref("Ident")))),
		Fields: []gram.Field{{Kind: gram.FStrs, Prod: -1, Uni: -1}, {Kind: gram.FStrs, Prod: -1, Uni: -1}, {Kind: gram.FStrs, Prod: -1, Uni: -1}}}}
	fi := 0
	g.Prods[0].Expr.Walk(func(e *gram.Expr) {
		if e.Kind == gram.KCap {
			e.Field = fi
			fi++
		}
	})
	ps, msg := buildLadder(g)
	if msg != "" {
		return violationf("harness", "long-input grammar does not build: %s", msg)
	}
	in := strings.Repeat("n ", n) + "a + 1"
	var first string
	firstK := 0
	for i, b := range ps.bs {
		if c13Ladder[i] == 0 {
			continue // with lookahead 0 the first alternative commits after its first token: a different language
		}
		var ast *gram.Root
		var err error
		if pm := guardFor(func() { ast, err = b.P.ParseString("f", in) }, 6); pm != "" {
			return violationf("long-input", "%d names followed by `a + 1`, lookahead %d: %s", n, c13Ladder[i], pm)
		}
		if err != nil {
			return violationf("monotone", "%d names followed by `a + 1` parse with lookahead 1 but not with lookahead %d: %v", n, c13Ladder[i], err)
		}
		p := gram.Plain(reflect.ValueOf(ast.V))
		if first == "" {
			first, firstK = p, c13Ladder[i]
		} else if p != first {
			return violationf("ast", "%d names followed by `a + 1` parse to different ASTs with lookahead %d and %d", n, firstK, c13Ladder[i])
		}
	}
	return outcome{}
}

// checkC13Deep: one input that nests a recursive production n levels deep, with every lookahead of the ladder.
func checkC13Deep(n int) outcome {
	g := gram.StaticGrammars()[0] // SR1: ( @Ident "(" @@ ")" | @Ident "(" @@ ";" | @Int )
	ps, msg := buildLadder(g)
	if msg != "" {
		return violationf("harness", "deep-input grammar does not build: %s", msg)
	}
	in := strings.Repeat("a ( ", n) + "1" + strings.Repeat(" )", n)
	var first *gram.Root
	firstK := 0
	for i, b := range ps.bs {
		var ast *gram.Root
		var err error
		if pm := guardFor(func() { ast, err = b.P.ParseString("f", in) }, 6); pm != "" {
			return violationf("deep-input", "`a (` nested %d deep, lookahead %d: %s", n, c13Ladder[i], pm)
		}
		if err != nil && first != nil {
			return violationf("monotone", "`a ( ... 1 ... )` nested %d deep parses with lookahead %d but not with lookahead %d: %v", n, firstK, c13Ladder[i], err)
		}
		if err != nil {
			continue
		}
		if first == nil {
			first, firstK = ast, c13Ladder[i]
		} else if !reflect.DeepEqual(ast, first) {
			return violationf("ast", "`a ( ... 1 ... )` nested %d deep parses to different ASTs with lookahead %d and %d", n, firstK, c13Ladder[i])
		}
	}
	return outcome{}
}

func TestC13(t *testing.T) {
	var longOnce sync.Once
	runProp(t, "C13", c13Rule, func(t *rapid.T, r *vstat.Run) {
		longOnce.Do(func() {
			o := checkC13Long(100100)
			r.Eval()
			r.Count("long_input_cases")
			report(t, r, o, &gramCase{Text: "long input: 100100 names followed by `a + 1` against ( @Ident \"+\" @Int | @Ident )*"})
			o = checkC13Deep(12000)
			r.Eval()
			r.Count("deep_input_cases")
			report(t, r, o, &gramCase{Text: "deep input: `a (` nested 12000 deep against ( @Ident \"(\" @@ \")\" | @Ident \"(\" @@ \";\" | @Int )"})
		})
		o := gram.GenOpts{MaxProds: 4, MaxDepth: 4, TrapPercent: 30, NoLookNeg: true, PosStyles: true, Profiles: true, Parseables: true, Statics: true, NameElided: rapid.IntRange(0, 4).Draw(t, "named") == 0}
		g := gram.GenGrammar(t, o)
		ps, msg := buildLadder(g)
		if msg != "" {
			r.Count("build_failed_left_to_C19")
			return
		}
		r.Count("grammars")
		for i := 0; i < 4; i++ {
			toks := gram.GenInput(t, g)
			c := &gramCase{G: g, Input: gram.Render(t, g, toks, "r"), AllowTrailing: rapid.IntRange(0, 3).Draw(t, "trailing") == 0}
			report(t, r, checkC13(c, ps, r), c)
		}
	})
}

func TestC13Replay(t *testing.T) {
	replayAll(t, "C13", func(raw json.RawMessage) outcome {
		var c gramCase
		if err := json.Unmarshal(raw, &c); err != nil {
			return violationf("harness", "bad replay: %v", err)
		}
		if c.G == nil {
			if strings.HasPrefix(c.Text, "deep input") {
				return checkC13Deep(12000)
			}
			return checkC13Long(100100) // the long-input case carries no grammar of its own
		}
		ps, msg := buildLadder(c.G)
		if msg != "" {
			return violationf("build", "%s", msg)
		}
		return checkC13(&c, ps, nil)
	})
}
