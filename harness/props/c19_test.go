package props

import (
	"encoding/json"
	"fmt"
	"reflect"
	"strconv"
	"strings"
	"testing"

	"github.com/alecthomas/participle/v2"
	"github.com/alecthomas/participle/v2/lexer"
	"pgregory.net/rapid"

	"verifharness/fixtures"
	"verifharness/gram"
	"verifharness/vstat"
)

// ---- C19: Build always returns a parser or an error; it never panics or hangs ----

// tagTok is one token of a generated struct tag.
type tagTok struct {
	K string `json:"k"` // @ ( ) [ ] { } | ? * + ! ~ : = lit ident junk
	T string `json:"t"` // text as written into the tag
}

type c19Field struct {
	Type string   `json:"type"` // name from fieldTypePool
	Toks []tagTok `json:"toks"`
	Form int      `json:"form"`          // 0 whole tag, 1 parser:"..."
	Raw  string   `json:"raw,omitempty"` // if set: the tag text verbatim (raw soup incl. NUL etc.)
	// Blank: a tag that is not empty but holds no token (blanks, a comment).
	Blank string `json:"blank,omitempty"`
	// Name: field name (default F<i>); Pos / EndPos / Tokens are special to the library.
	Name string `json:"name,omitempty"`
}

type c19Case struct {
	Fields  []c19Field    `json:"fields"`
	Grammar *gram.Grammar `json:"grammar,omitempty"` // kind (c): a valid generated grammar
	Static  string        `json:"static,omitempty"`  // a static type by name
	Origin  string        `json:"origin"`            // soup | edit | valid | static | rawsoup
}

// ---- static odd types ----

type c19Parseable struct{ V string }

func (p *c19Parseable) Parse(lex *lexer.PeekingLexer) error { lex.Next(); return nil }

type c19Capture struct{ V string }

func (c *c19Capture) Capture(values []string) error { c.V = strings.Join(values, ""); return nil }

type c19Text struct{ V string }

func (c *c19Text) UnmarshalText(b []byte) error { c.V = string(b); return nil }

type c19Rec struct {
	V    string  `@Ident`
	Next *c19Rec `@@?`
}
type c19Unexported struct {
	a string `@Ident`
	B string `@Ident`
}
type c19OnlyUnexported struct {
	a string `@Ident`
}
type c19NoTags struct {
	A string
	B int
}
type c19Nested struct {
	Inner struct {
		X string `@Ident`
	} `@@`
	Y []struct {
		Z string `@Int`
	} `@@*`
}
type c19Iface interface{ isIface() }

type c19WithIface struct {
	V c19Iface `@@`
}
type c19MapField struct {
	M map[string]string `@Ident`
}
type c19ChanField struct {
	C chan int `@Ident`
}
type c19EmbedSelf struct {
	*c19EmbedSelf
	V string `@Ident`
}
type c19EmbedA struct {
	*c19EmbedB
	V string `@Ident`
}
type c19EmbedB struct {
	*c19EmbedA
	W string `@Int`
}
type c19EmbedVal struct {
	c19Rec
	X string `@Int`
}

// grammar fields reached through three and four levels of by-value embedding, several fields per level
type c19Deep4 struct {
	A string `@Ident`
	B string `"=" @Int`
	C string `";"?`
}
type c19Deep3 struct {
	c19Deep4
	D string `@String?`
}
type c19Deep2 struct {
	c19Deep3
	E []string `@Ident*`
}
type c19Deep1 struct {
	c19Deep2
	F string `"."`
}
type c19Deep4Bad struct {
	A string `@Nope`
	B string `"=" @Int`
}
type c19Deep3Bad struct{ c19Deep4Bad }
type c19Deep2Bad struct{ c19Deep3Bad }
type c19Deep1Bad struct {
	c19Deep2Bad
	F string `"."`
}

// an invalid tag in a field that comes after a by-value embedded struct with several grammar fields (the ordinal
// of the offending field among the grammar fields exceeds the number of fields the struct declares itself)
type c19EmbedBadLater struct {
	c19Deep4
	X string `@Nope`
}
type c19EmbedUnclosedLater struct {
	c19Deep4
	X string `( @Ident`
}

// field types that reach the less travelled corners of the type walk: a Parseable with a value receiver, an
// interface type that includes Parse, a slice type that is its own element type
type c19ParseableVal struct{ V string }

func (p c19ParseableVal) Parse(lex *lexer.PeekingLexer) error { lex.Next(); return nil }

type c19WithParseableVal struct {
	A c19ParseableVal `@@`
	B string          `@Ident`
}
type c19ParseIface interface {
	Parse(lex *lexer.PeekingLexer) error
}
type c19WithParseIface struct {
	A c19ParseIface `@@`
	B string        `@Ident`
}
type c19SelfSlice []c19SelfSlice
type c19WithSelfSlice struct {
	A c19SelfSlice `@@`
	B string       `@Ident`
}
type c19SelfPtrSlice []*c19SelfPtrSlice
type c19WithSelfPtrSlice struct {
	A c19SelfPtrSlice `@Ident`
}

type c19LeftRec struct {
	L *c19LeftRec `@@`
	V string      `@Ident`
}

var fieldTypePool = map[string]reflect.Type{
	"string":     reflect.TypeOf(""),
	"*string":    reflect.TypeOf((*string)(nil)),
	"[]string":   reflect.TypeOf([]string(nil)),
	"bool":       reflect.TypeOf(true),
	"int":        reflect.TypeOf(0),
	"[]int":      reflect.TypeOf([]int(nil)),
	"float64":    reflect.TypeOf(0.0),
	"Token":      reflect.TypeOf(lexer.Token{}),
	"[]Token":    reflect.TypeOf([]lexer.Token(nil)),
	"Position":   reflect.TypeOf(lexer.Position{}),
	"map":        reflect.TypeOf(map[string]string(nil)),
	"chan":       reflect.TypeOf((chan int)(nil)),
	"func":       reflect.TypeOf((func())(nil)),
	"array":      reflect.TypeOf([2]string{}),
	"any":        reflect.TypeOf((*any)(nil)).Elem(),
	"U1":         gram.UniTypes[1],
	"Parseable":  reflect.TypeOf(c19Parseable{}),
	"*Parseable": reflect.TypeOf(&c19Parseable{}),
	"Capture":    reflect.TypeOf(c19Capture{}),
	"[]Capture":  reflect.TypeOf([]c19Capture(nil)),
	"Text":       reflect.TypeOf(c19Text{}),
	"Rec":        reflect.TypeOf(c19Rec{}),
	"*Rec":       reflect.TypeOf(&c19Rec{}),
	"[]*Rec":     reflect.TypeOf([]*c19Rec(nil)),
	"NoTags":     reflect.TypeOf(c19NoTags{}),
	"uint8":      reflect.TypeOf(uint8(0)),
	"**string":   reflect.TypeOf((**string)(nil)),
	"[][]string": reflect.TypeOf([][]string(nil)),
}

var simpleCaptureTypes = []string{"string", "*string", "[]string", "bool", "Token", "[]Token", "int", "[]int"}

var knownIdents = map[string]bool{"EOF": true, "Char": true, "Ident": true, "Int": true, "Float": true, "String": true, "RawString": true, "Comment": true}

// ---- reference recogniser for the documented tag syntax ----

type tagClass int

const (
	tagUndecided tagClass = iota // syntactically odd in a way the statement does not list: any non-panicking outcome is fine
	tagValid                     // follows the documented syntax: must build
	tagMalformed                 // one of the listed malformed shapes: must be rejected with an error
)

type recog struct {
	toks   []tagTok
	pos    int
	class  tagClass
	reason string
	hasSub bool
	hasCap bool
}

func (r *recog) peek() *tagTok {
	if r.pos < len(r.toks) {
		return &r.toks[r.pos]
	}
	return nil
}

func (r *recog) fail(class tagClass, reason string) bool {
	if r.reason == "" {
		r.class, r.reason = class, reason
	}
	return false
}

func isModifier(k string) bool { return k == "?" || k == "*" || k == "+" || k == "!" }

func isCloser(k string) bool { return k == ")" || k == "]" || k == "}" }

// expr = seq { "|" seq } ; every seq non-empty
func (r *recog) expr() bool {
	n := 0
	for {
		n++
		t := r.peek()
		if t == nil || t.K == "|" || isCloser(t.K) {
			return r.fail(tagMalformed, fmt.Sprintf("alternative %d is empty", n))
		}
		if !r.seq() {
			return false
		}
		t = r.peek()
		if t == nil || t.K != "|" {
			return true
		}
		r.pos++
	}
}

func (r *recog) seq() bool {
	n := 0
	for {
		t := r.peek()
		if t == nil || t.K == "|" || isCloser(t.K) {
			return true
		}
		if n == 0 && isModifier(t.K) && t.K != "!" {
			return r.fail(tagMalformed, "modifier "+t.K+" applied to nothing")
		}
		if !r.term() {
			return false
		}
		n++
	}
}

func (r *recog) term() bool {
	if !r.atom() {
		return false
	}
	if t := r.peek(); t != nil && isModifier(t.K) {
		r.pos++
	}
	return true
}

func (r *recog) needOperand(what string) bool {
	t := r.peek()
	if t == nil || t.K == "|" || isCloser(t.K) {
		return r.fail(tagMalformed, what+" applied to nothing")
	}
	if isModifier(t.K) && t.K != "!" {
		return r.fail(tagMalformed, what+" applied to nothing (a modifier follows)")
	}
	return true
}

func (r *recog) atom() bool {
	t := r.peek()
	switch t.K {
	case "@":
		r.pos++
		r.hasCap = true
		if n := r.peek(); n != nil && n.K == "@" {
			r.pos++
			r.hasSub = true
			return true
		}
		if !r.needOperand("capture") {
			return false
		}
		if n := r.peek(); n.K == ":" || n.K == "=" || n.K == "junk" {
			return r.fail(tagUndecided, "capture of a stray token")
		}
		return r.atom()
	case "!", "~":
		r.pos++
		if !r.needOperand("negation") {
			return false
		}
		if n := r.peek(); n.K == ":" || n.K == "=" || n.K == "junk" {
			return r.fail(tagUndecided, "negation of a stray token")
		}
		return r.atom()
	case "lit":
		r.pos++
		if !strings.HasSuffix(t.T, t.T[:1]) || len(t.T) < 2 {
			return r.fail(tagUndecided, "unterminated literal")
		}
		if n := r.peek(); n != nil && n.K == ":" {
			r.pos++
			n = r.peek()
			if n == nil || n.K != "ident" {
				return r.fail(tagUndecided, "type constraint without identifier")
			}
			r.pos++
			if !knownIdents[n.T] {
				return r.fail(tagMalformed, "unknown token type "+n.T+" in literal type constraint")
			}
		}
		return true
	case "ident":
		r.pos++
		if !knownIdents[t.T] {
			return r.fail(tagMalformed, "unknown token type "+t.T)
		}
		return true
	case "(":
		r.pos++
		if n := r.peek(); n != nil && n.K == "?" {
			r.pos++
			n = r.peek()
			if n == nil {
				return r.fail(tagMalformed, "unclosed lookahead group")
			}
			if n.K != "=" && n.K != "!" {
				return r.fail(tagUndecided, "bad lookahead marker")
			}
			r.pos++
		}
		return r.group(")")
	case "[":
		r.pos++
		return r.group("]")
	case "{":
		r.pos++
		return r.group("}")
	default:
		return r.fail(tagUndecided, "stray token "+t.T)
	}
}

func (r *recog) group(closer string) bool {
	if !r.expr() {
		return false
	}
	t := r.peek()
	if t == nil {
		return r.fail(tagMalformed, "unclosed group: missing "+closer)
	}
	if t.K != closer {
		return r.fail(tagMalformed, "group closed by "+t.T+" instead of "+closer)
	}
	r.pos++
	return true
}

// classify decides what the documented syntax says about the concatenated tags of a struct.
func classifyTags(toks []tagTok) (tagClass, string, *recog) {
	r := &recog{toks: toks}
	if len(toks) == 0 {
		return tagMalformed, "no grammar", r
	}
	if !r.expr() {
		return r.class, r.reason, r
	}
	if r.pos < len(toks) {
		return tagUndecided, "trailing " + toks[r.pos].T, r
	}
	return tagValid, "", r
}

// ---- building the Go type ----

type c19Root struct {
	V gram.U0 `@@`
}

func renderToks(ts []tagTok) string {
	ss := make([]string, len(ts))
	for i, t := range ts {
		ss[i] = t.T
	}
	return strings.Join(ss, " ")
}

func c19Type(c *c19Case) reflect.Type {
	var sf []reflect.StructField
	for i, f := range c.Fields {
		text := f.Raw
		if text == "" {
			text = renderToks(f.Toks)
		}
		if f.Blank != "" {
			text = f.Blank
		}
		tag := reflect.StructTag(text)
		if f.Form == 1 {
			tag = reflect.StructTag("parser:" + strconv.Quote(text))
		}
		ft, ok := fieldTypePool[f.Type]
		if !ok {
			ft = fieldTypePool["string"]
		}
		name := fmt.Sprintf("F%d", i)
		if f.Name != "" {
			name = f.Name
		}
		sf = append(sf, reflect.StructField{Name: name, Type: ft, Tag: tag})
	}
	return reflect.StructOf(sf)
}

const c19Rule = "struct types built with reflect.StructOf from a pool of 28 field types (strings, numerics, slices, pointers, maps, channels, " +
	"funcs, arrays, interfaces with and without a union, Parseable/Capture/TextUnmarshaler types, recursive structs, structs without tags) " +
	"plus static types (unexported fields, anonymous nested structs, left-recursive), with tags that are (a) token soup over the tag " +
	"alphabet (incl. unknown identifiers, unterminated strings / chars / raw strings / comments, raw NUL bytes) cut into 1-3 fields, raw byte soup as the first or a later field's tag, (b) single-token insertions, " +
	"deletions and replacements applied to valid renderings (literals may look like operators: \"@\", \"(\", '?'), (c) valid generated grammars (one in 25 with a misspelt Elide option: must be rejected), static layered grammars (31 productions, 3^30 paths) and the repository's example grammars; whole-tag and parser:\"...\" forms; oracle: " +
	"Build returns within the watchdog without panicking, exactly one of parser/error, a reference recogniser of the documented tag " +
	"syntax decides 'must build' (valid syntax, known token types, simple capture targets) and 'must be rejected' (unknown token type, " +
	"unclosed group/lookahead, modifier/capture/negation applied to nothing, empty alternative, no usable field); non-trivial = the tag " +
	"is within one token edit of a valid grammar or has an operator without operand; distinct by SHA-256 of the case"

func checkC19(c *c19Case, r *vstat.Run) outcome {
	var buildErr error
	var built bool
	var pmsg string
	expect := tagUndecided
	reason := ""
	switch {
	case c.Grammar != nil:
		expect = tagValid
		if lr, _ := c.Grammar.LeftRecursive(); lr {
			expect, reason = tagMalformed, "left-recursive system"
		}
		if len(c.Grammar.ExtraElide) > 0 && c.Grammar.ExtraElide[0] != "EOF" {
			expect, reason = tagMalformed, "an Elide() option names a token type the lexer does not define"
		}
		if r != nil && c.Origin == "recsys" {
			r.Journal(c, "Build of a generated recursive system")
			defer r.JournalDone()
		}
		pmsg = guard(func() {
			b, err := gram.Build(c.Grammar)
			buildErr, built = err, b != nil && err == nil
		})
	case c.Static != "":
		if r != nil {
			r.Journal(c, "Build of a static recursive type")
		}
		pmsg = guard(func() {
			if ex := strings.TrimPrefix(c.Static, "example:"); ex != c.Static {
				// the repository's example grammars, built when the test binary starts
				ok, msg := fixtures.ExampleBuild(ex)
				built = ok
				if !ok {
					buildErr = fmt.Errorf("%s", msg)
					if strings.HasPrefix(msg, "Build panicked") {
						panic(msg)
					}
				}
				return
			}
			built, buildErr = buildStatic(c.Static)
		})
		if r != nil {
			r.JournalDone()
		}
		switch c.Static {
		case "OnlyUnexported", "NoTags", "LeftRec", "DeepBad", "EmbedBadLater", "EmbedUnclosedLater", "IfaceRoot", "AnyRoot":
			expect, reason = tagMalformed, "no usable field / left recursion / unknown token type in a deeply embedded field"
		case "Unexported", "Nested", "Rec", "EmbedSelf", "EmbedPair", "EmbedVal", "Deep", "Layers15", "Layers30", "EdgeLayers30", "NamedSliceRec", "NamedPtrRec", "UniNames":
			expect = tagValid
		}
		if strings.HasPrefix(c.Static, "example:") {
			expect = tagValid
		}
	default:
		var all []tagTok
		rawSoup := false
		for _, f := range c.Fields {
			all = append(all, f.Toks...)
			if f.Raw != "" {
				rawSoup = true
			}
		}
		if !rawSoup {
			var rc *recog
			expect, reason, rc = classifyTags(all)
			if expect == tagValid {
				// "captures into supported field types": only claim 'must build' for simple targets and no @@
				if rc.hasSub {
					expect, reason = tagUndecided, "@@ into generated field type"
				}
				for _, f := range c.Fields {
					simple := false
					for _, s := range simpleCaptureTypes {
						if s == f.Type {
							simple = true
						}
					}
					if !simple {
						expect, reason = tagUndecided, "field type "+f.Type
					}
				}
			}
			if len(c.Fields) == 0 {
				expect, reason = tagMalformed, "struct without grammar fields"
			}
			quoteOpen := false
			for _, tk := range all {
				// a lone quote opens a literal that swallows the tokens up to the next one (single-quoted strings of
				// any length are literals): what lies in between is text, not grammar
				if tk.K == "lit" && (len(tk.T) < 2 || !strings.HasSuffix(tk.T, tk.T[:1])) || tk.T == "/*" {
					quoteOpen = true
				}
			}
			if expect == tagUndecided && !quoteOpen {
				// whatever else is odd about the tags, a reference to an unknown token type cannot build
				for _, tk := range all {
					if tk.K == "ident" && !knownIdents[tk.T] {
						expect, reason = tagMalformed, "unknown token type "+tk.T+" (next to: "+reason+")"
						break
					}
				}
			}
		}
		typ := c19Type(c)
		pmsg = guard(func() {
			p, err := participle.Build[c19Root](participle.Union[gram.U0](reflect.New(typ).Elem().Interface()), participle.Union[gram.U1](c19Rec{}))
			buildErr, built = err, p != nil
		})
	}
	if r != nil {
		r.Eval()
		r.Count("origin_" + c.Origin)
		switch expect {
		case tagValid:
			r.Count("expect_build")
		case tagMalformed:
			r.Count("expect_error")
		default:
			r.Count("expect_any_non_panicking_outcome")
		}
		if c.Origin == "edit" || strings.Contains(reason, "applied to nothing") {
			r.NonTrivial(mustJSON(c), func() any { return c })
		}
	}
	desc := describeC19(c)
	if pmsg != "" {
		sig := "panic"
		if isHang(pmsg) {
			sig = "hang"
		}
		return violationf(sig, "Build %s\n%s", pmsg, desc)
	}
	if built == (buildErr != nil) {
		return violationf("both", "Build returned parser=%v and error=%v\n%s", built, buildErr, desc)
	}
	switch expect {
	case tagValid:
		if buildErr != nil {
			return violationf("rejected-valid", "Build rejected a grammar that follows the documented syntax: %v\n%s", buildErr, desc)
		}
	case tagMalformed:
		if buildErr == nil {
			return violationf("accepted-malformed", "Build accepted a malformed grammar (%s)\n%s", reason, desc)
		}
	}
	return outcome{}
}

// c19Layer: a production that refers to the next layer three times. Thirty layers are thirty-one productions and
// 3^30 paths through the production graph: Build's work must follow the former.
type c19Layer[T any] struct {
	A *T `  "a" @@`
	B *T `| "b" @@`
	C *T `| "ab" @@`
}
type c19Leaf struct {
	V string `@Int`
}
type (
	c19L5  = c19Layer[c19Layer[c19Layer[c19Layer[c19Layer[c19Leaf]]]]]
	c19L10 = c19Layer[c19Layer[c19Layer[c19Layer[c19Layer[c19L5]]]]]
	c19L15 = c19Layer[c19Layer[c19Layer[c19Layer[c19Layer[c19L10]]]]]
	c19L20 = c19Layer[c19Layer[c19Layer[c19Layer[c19Layer[c19L15]]]]]
	c19L25 = c19Layer[c19Layer[c19Layer[c19Layer[c19Layer[c19L20]]]]]
	c19L30 = c19Layer[c19Layer[c19Layer[c19Layer[c19Layer[c19L25]]]]]
)

// c19EdgeLayer: the references to the next layer are the first thing in each alternative (so they lie on the left
// edge of the production and can each match nothing as far as Build knows before it has looked).
type c19EdgeLayer[T any] struct {
	A *T `( @@`
	B *T `| @@`
	C *T `| @@ ) "x"`
}
type (
	c19E5  = c19EdgeLayer[c19EdgeLayer[c19EdgeLayer[c19EdgeLayer[c19EdgeLayer[c19Leaf]]]]]
	c19E10 = c19EdgeLayer[c19EdgeLayer[c19EdgeLayer[c19EdgeLayer[c19EdgeLayer[c19E5]]]]]
	c19E15 = c19EdgeLayer[c19EdgeLayer[c19EdgeLayer[c19EdgeLayer[c19EdgeLayer[c19E10]]]]]
	c19E20 = c19EdgeLayer[c19EdgeLayer[c19EdgeLayer[c19EdgeLayer[c19EdgeLayer[c19E15]]]]]
	c19E25 = c19EdgeLayer[c19EdgeLayer[c19EdgeLayer[c19EdgeLayer[c19EdgeLayer[c19E20]]]]]
	c19E30 = c19EdgeLayer[c19EdgeLayer[c19EdgeLayer[c19EdgeLayer[c19EdgeLayer[c19E25]]]]]
)

// recursion through *declared* slice and pointer types
type c19Nodes []*c19Node
type c19Node struct {
	Name string   `@Ident`
	Kids c19Nodes `( "(" @@* ")" )?`
}
type c19Ref *c19Chain
type c19Chain struct {
	Name string `@Ident`
	Next c19Ref `( "." @@ )?`
}

// token types whose names are not ASCII
var c19UniLex = lexer.MustSimple([]lexer.SimpleRule{
	{Name: "Größe", Pattern: `[0-9]+`}, {Name: "Ключ", Pattern: `[a-z]+`}, {Name: "Név2", Pattern: `[A-Z]+`}, {Name: "数", Pattern: `#`},
	{Name: "Punct", Pattern: `[-+=;()]`}, {Name: "ws", Pattern: `\s+`},
})

type c19UniNames struct {
	A string   `@Ключ "=" ( @Größe | @Név2 )`
	B []string `( ~数 | "x":Név2 )* (?= 数 )? @数?`
}

func buildStatic(name string) (bool, error) {
	switch name {
	case "NamedSliceRec":
		p, err := participle.Build[c19Node]()
		if err == nil {
			v, perr := p.ParseString("", "a ( b ( c ) d )")
			if perr != nil || len(v.Kids) != 2 {
				return false, fmt.Errorf("grammar recursive through a declared slice type built but does not parse its own language: %v", perr)
			}
		}
		return p != nil, err
	case "NamedPtrRec":
		p, err := participle.Build[c19Chain]()
		return p != nil, err
	case "UniNames":
		p, err := participle.Build[c19UniNames](participle.Lexer(c19UniLex))
		if err == nil {
			v, perr := p.ParseString("", "ab = 12 ; X #")
			if perr != nil || v.A != "ab12" {
				return false, fmt.Errorf("grammar over token types with non-ASCII names built but does not parse its own language: %v %+v", perr, v)
			}
		}
		return p != nil, err
	case "IfaceRoot":
		p, err := participle.Build[fmt.Stringer]()
		return p != nil, err
	case "AnyRoot":
		p, err := participle.Build[any]()
		return p != nil, err
	case "EdgeLayers30":
		p, err := participle.Build[c19E30]()
		if err == nil {
			v, perr := p.ParseString("", "7"+strings.Repeat(" x", 30))
			if perr != nil || v.A == nil || v.A.A == nil {
				return false, fmt.Errorf("layered grammar built but does not parse its own language: %v", perr)
			}
		}
		return p != nil, err
	case "Layers15":
		p, err := participle.Build[c19L15]()
		return p != nil, err
	case "Layers30":
		p, err := participle.Build[c19L30]()
		if err == nil {
			v, perr := p.ParseString("", strings.Repeat("a b ab ", 10)+"7")
			if perr != nil || v.A == nil || v.A.B == nil || v.A.B.C == nil {
				return false, fmt.Errorf("layered grammar built but does not parse its own language: %v", perr)
			}
		}
		return p != nil, err
	case "Rec":
		p, err := participle.Build[c19Rec]()
		return p != nil, err
	case "Unexported":
		p, err := participle.Build[c19Unexported]()
		return p != nil, err
	case "OnlyUnexported":
		p, err := participle.Build[c19OnlyUnexported]()
		return p != nil, err
	case "NoTags":
		p, err := participle.Build[c19NoTags]()
		return p != nil, err
	case "Nested":
		p, err := participle.Build[c19Nested]()
		return p != nil, err
	case "WithIface":
		p, err := participle.Build[c19WithIface]()
		return p != nil, err
	case "MapField":
		p, err := participle.Build[c19MapField]()
		return p != nil, err
	case "ChanField":
		p, err := participle.Build[c19ChanField]()
		return p != nil, err
	case "LeftRec":
		p, err := participle.Build[c19LeftRec]()
		return p != nil, err
	case "EmbedSelf":
		p, err := participle.Build[c19EmbedSelf]()
		return p != nil, err
	case "EmbedPair":
		p, err := participle.Build[c19EmbedA]()
		return p != nil, err
	case "EmbedVal":
		p, err := participle.Build[c19EmbedVal]()
		return p != nil, err
	case "Deep":
		p, err := participle.Build[c19Deep1]()
		if err == nil {
			// the fields must also be wired to the right tags
			v, perr := p.ParseString("", `k = 1 ; "s" a b .`)
			if perr != nil || v.A != "k" || v.B != "1" || v.D != `"s"` || len(v.E) != 2 {
				return false, fmt.Errorf("deeply embedded grammar built but does not parse its own language: %v %+v", perr, v)
			}
		}
		return p != nil, err
	case "DeepBad":
		p, err := participle.Build[c19Deep1Bad]()
		return p != nil, err
	case "ParseableVal":
		p, err := participle.Build[c19WithParseableVal]()
		return p != nil, err
	case "ParseIface":
		p, err := participle.Build[c19WithParseIface]()
		return p != nil, err
	case "SelfSlice":
		p, err := participle.Build[c19WithSelfSlice]()
		return p != nil, err
	case "SelfPtrSlice":
		p, err := participle.Build[c19WithSelfPtrSlice]()
		return p != nil, err
	case "EmbedBadLater":
		p, err := participle.Build[c19EmbedBadLater]()
		return p != nil, err
	case "EmbedUnclosedLater":
		p, err := participle.Build[c19EmbedUnclosedLater]()
		return p != nil, err
	case "string":
		p, err := participle.Build[string]()
		return p != nil, err
	case "*Rec":
		p, err := participle.Build[*c19Rec]()
		return p != nil, err
	case "[]Rec":
		p, err := participle.Build[[]c19Rec]()
		return p != nil, err
	case "map":
		p, err := participle.Build[map[string]c19Rec]()
		return p != nil, err
	case "any":
		p, err := participle.Build[any]()
		return p != nil, err
	}
	return false, fmt.Errorf("harness: unknown static type")
}

var c19Statics = []string{"Rec", "Unexported", "OnlyUnexported", "NoTags", "Nested", "WithIface", "MapField", "ChanField", "LeftRec", "string", "*Rec", "[]Rec", "map", "any", "EmbedSelf", "EmbedPair", "EmbedVal", "Deep", "DeepBad", "EmbedBadLater", "EmbedUnclosedLater", "ParseableVal", "ParseIface", "SelfSlice", "SelfPtrSlice", "Layers15", "Layers30", "EdgeLayers30", "NamedSliceRec", "NamedPtrRec", "UniNames", "IfaceRoot", "AnyRoot"}

func describeC19(c *c19Case) string {
	if c.Grammar != nil {
		return c.Grammar.String()
	}
	if c.Static != "" {
		return "static type " + c.Static
	}
	var sb strings.Builder
	for i, f := range c.Fields {
		text := f.Raw
		if text == "" {
			text = renderToks(f.Toks)
		}
		if f.Blank != "" {
			text = f.Blank
		}
		fmt.Fprintf(&sb, "  F%d %s %s form=%d tag %q\n", i, f.Name, f.Type, f.Form, text)
	}
	return sb.String()
}

// ---- generators ----

var soupAlphabet = []tagTok{
	{"@", "@"}, {"@", "@"}, {"(", "("}, {")", ")"}, {"[", "["}, {"]", "]"}, {"{", "{"}, {"}", "}"}, {"|", "|"}, {"?", "?"}, {"*", "*"}, {"+", "+"},
	{"!", "!"}, {"~", "~"}, {":", ":"}, {"=", "="}, {"lit", `"a"`}, {"lit", `'b'`}, {"lit", "`c`"}, {"lit", `"+"`}, {"lit", `""`}, {"lit", `"@"`}, {"lit", `'@'`},
	{"ident", "Ident"}, {"ident", "Int"}, {"ident", "String"}, {"ident", "EOF"}, {"ident", "Unknown"}, {"ident", "ident"},
	{"lit", `"unterminated`}, {"lit", "'"}, {"lit", "`raw"}, {"junk", "/*"}, {"junk", "1"}, {"junk", "1.5"}, {"junk", "\\"}, {"junk", "#"}, {"junk", ";"},
}

func genValidToks(t *rapid.T, depth int) []tagTok {
	lit := func() tagTok {
		// (literals whose text is an operator of the tag language are literals like any other)
		return rapid.SampledFrom([]tagTok{{"lit", `"a"`}, {"lit", `'b'`}, {"lit", "`c`"}, {"lit", `"+"`}, {"lit", `"@"`}, {"lit", `'@'`}, {"lit", "`@`"},
			{"lit", `"("`}, {"lit", `"|"`}, {"lit", `'?'`}, {"lit", `"!"`}, {"lit", `":"`}, {"lit", `"~"`}, {"lit", `"@@"`}}).Draw(t, "vlit")
	}
	ident := func() tagTok {
		return tagTok{"ident", rapid.SampledFrom([]string{"Ident", "Int", "String", "Float"}).Draw(t, "vident")}
	}
	var atom func(d int) []tagTok
	var expr func(d int) []tagTok
	atom = func(d int) []tagTok {
		k := rapid.IntRange(0, 9).Draw(t, "vatom")
		if d <= 0 && k > 3 {
			k = k % 4
		}
		switch k {
		case 0:
			return []tagTok{lit()}
		case 1:
			return []tagTok{ident()}
		case 2:
			if rapid.IntRange(0, 2).Draw(t, "caplit") == 0 {
				return []tagTok{{"@", "@"}, lit()}
			}
			return []tagTok{{"@", "@"}, ident()}
		case 3:
			return []tagTok{lit(), {":", ":"}, ident()}
		case 4:
			return append(append([]tagTok{{"(", "("}}, expr(d-1)...), tagTok{")", ")"})
		case 5:
			return append(append([]tagTok{{"[", "["}}, expr(d-1)...), tagTok{"]", "]"})
		case 6:
			return append(append([]tagTok{{"{", "{"}}, expr(d-1)...), tagTok{"}", "}"})
		case 7:
			return append([]tagTok{{"~", "~"}}, atom(d-1)...)
		case 8:
			m := rapid.SampledFrom([]string{"=", "!"}).Draw(t, "vlook")
			return append(append([]tagTok{{"(", "("}, {"?", "?"}, {m, m}}, expr(d-1)...), tagTok{")", ")"})
		default:
			return append(append([]tagTok{{"@", "@"}, {"(", "("}}, expr(d-1)...), tagTok{")", ")"})
		}
	}
	expr = func(d int) []tagTok {
		var out []tagTok
		na := rapid.IntRange(1, 2).Draw(t, "vna")
		for a := 0; a < na; a++ {
			if a > 0 {
				out = append(out, tagTok{"|", "|"})
			}
			ns := rapid.IntRange(1, 3).Draw(t, "vns")
			for s := 0; s < ns; s++ {
				out = append(out, atom(d)...)
				if rapid.IntRange(0, 3).Draw(t, "vmod") == 0 {
					m := rapid.SampledFrom([]string{"?", "*", "+", "!"}).Draw(t, "vm")
					out = append(out, tagTok{m, m})
				}
			}
		}
		return out
	}
	return expr(depth)
}

func splitFields(t *rapid.T, toks []tagTok, simple bool) []c19Field {
	nf := rapid.IntRange(1, 3).Draw(t, "nfields")
	var fields []c19Field
	cuts := []int{0}
	for i := 1; i < nf; i++ {
		cuts = append(cuts, rapid.IntRange(0, len(toks)).Draw(t, "cut"))
	}
	cuts = append(cuts, len(toks))
	for i := 1; i < len(cuts); i++ {
		if cuts[i] < cuts[i-1] {
			cuts[i] = cuts[i-1]
		}
	}
	names := make([]string, 0, len(fieldTypePool))
	for n := range fieldTypePool {
		names = append(names, n)
	}
	sortStrings(names)
	for i := 0; i+1 < len(cuts); i++ {
		chunk := toks[cuts[i]:cuts[i+1]]
		if len(chunk) == 0 && i > 0 {
			continue
		}
		ft := rapid.SampledFrom(simpleCaptureTypes).Draw(t, "ftype")
		if !simple && rapid.IntRange(0, 2).Draw(t, "odd") == 0 {
			ft = rapid.SampledFrom(names).Draw(t, "oddtype")
		}
		fields = append(fields, c19Field{Type: ft, Toks: append([]tagTok(nil), chunk...), Form: rapid.IntRange(0, 1).Draw(t, "form")})
		if rapid.IntRange(0, 5).Draw(t, "blank") == 0 {
			// a field whose tag is not empty but holds no token: it contributes nothing to the grammar
			fields = append(fields, c19Field{Type: "string", Blank: rapid.SampledFrom([]string{" ", "  \t", "/* note */", "// note"}).Draw(t, "blanktext"), Form: rapid.IntRange(0, 1).Draw(t, "bform")})
		}
	}
	// the library treats fields called Pos, EndPos and Tokens specially; any field may carry such a name
	usedNames := map[string]bool{}
	for i := range fields {
		if rapid.IntRange(0, 7).Draw(t, "special") == 0 {
			n := rapid.SampledFrom([]string{"Tokens", "Pos", "EndPos"}).Draw(t, "specialname")
			if !usedNames[n] {
				usedNames[n] = true
				fields[i].Name = n
				if !simple && rapid.Bool().Draw(t, "specialtype") {
					fields[i].Type = rapid.SampledFrom(names).Draw(t, "specialtypename")
				}
			}
		}
	}
	return fields
}

func sortStrings(s []string) {
	for i := 1; i < len(s); i++ {
		for j := i; j > 0 && s[j] < s[j-1]; j-- {
			s[j], s[j-1] = s[j-1], s[j]
		}
	}
}

func TestC19(t *testing.T) { runProp(t, "C19", c19Rule, propC19) }

func FuzzC19(f *testing.F) { fuzzProp(f, "C19", propC19) }

func propC19(t *rapid.T, r *vstat.Run) {
	{
		c := &c19Case{}
		switch k := rapid.IntRange(0, 19).Draw(t, "origin"); {
		case k <= 5:
			c.Origin = "soup"
			n := rapid.IntRange(0, 10).Draw(t, "soupn")
			var toks []tagTok
			for i := 0; i < n; i++ {
				toks = append(toks, rapid.SampledFrom(soupAlphabet).Draw(t, "souptok"))
			}
			c.Fields = splitFields(t, toks, false)
		case k <= 12:
			c.Origin = "edit"
			toks := genValidToks(t, rapid.IntRange(0, 3).Draw(t, "vdepth"))
			switch rapid.IntRange(0, 3).Draw(t, "edit") {
			case 0: // deletion
				if len(toks) > 0 {
					i := rapid.IntRange(0, len(toks)-1).Draw(t, "del")
					toks = append(toks[:i:i], toks[i+1:]...)
				}
			case 1: // insertion
				i := rapid.IntRange(0, len(toks)).Draw(t, "ins")
				toks = append(toks[:i:i], append([]tagTok{rapid.SampledFrom(soupAlphabet).Draw(t, "instok")}, toks[i:]...)...)
			case 2: // replacement
				if len(toks) > 0 {
					i := rapid.IntRange(0, len(toks)-1).Draw(t, "rep")
					toks[i] = rapid.SampledFrom(soupAlphabet).Draw(t, "reptok")
				}
			default: // no edit: a valid grammar in token form
			}
			c.Fields = splitFields(t, toks, rapid.IntRange(0, 3).Draw(t, "simple") > 0)
		case k == 13 && rapid.Bool().Draw(t, "stray"):
			// a stray token opens a later field and an unknown token type follows it: nothing after a complete
			// expression may be dropped silently
			c.Origin = "edit"
			first := genValidToks(t, rapid.IntRange(0, 2).Draw(t, "vdepth"))
			rest := genValidToks(t, rapid.IntRange(0, 2).Draw(t, "vdepth2"))
			var idents []int
			for i, tk := range rest {
				if tk.K == "ident" {
					idents = append(idents, i)
				}
			}
			if len(idents) > 0 && rapid.Bool().Draw(t, "replaceident") {
				rest[idents[rapid.IntRange(0, len(idents)-1).Draw(t, "which")]] = tagTok{"ident", "Unknown"}
			} else {
				rest = append(rest, tagTok{"@", "@"}, tagTok{"ident", "Unknown"})
			}
			stray := rapid.SampledFrom([]tagTok{{")", ")"}, {"]", "]"}, {"}", "}"}, {"?", "?"}, {"*", "*"}, {":", ":"}, {"junk", "1"}, {"=", "="}}).Draw(t, "straytok")
			c.Fields = []c19Field{
				{Type: "string", Toks: first, Form: rapid.IntRange(0, 1).Draw(t, "form")},
				{Type: "string", Toks: append([]tagTok{stray}, rest...), Form: rapid.IntRange(0, 1).Draw(t, "form2")},
			}
			if rapid.Bool().Draw(t, "third") {
				c.Fields = append(c.Fields, c19Field{Type: "[]string", Toks: []tagTok{{"@", "@"}, {"ident", "Ident"}}, Form: 0})
			}
		case k == 13:
			c.Origin = "recsys"
			c.Grammar, _ = gram.GenRecSystem(t)
		case k <= 14:
			c.Origin = "valid"
			c.Grammar = gram.GenGrammar(t, gram.GenOpts{MaxProds: 4, MaxDepth: 3, TrapPercent: 10, PosStyles: true, MixedUnion: true, Profiles: true, DeepEmbeds: true, Parseables: true, BadElide: true})
		case k <= 16:
			c.Origin = "static"
			c.Static = rapid.SampledFrom(c19Statics).Draw(t, "static")
			if rapid.IntRange(0, 9).Draw(t, "example") == 0 {
				c.Static = "example:" + rapid.SampledFrom(fixtures.Examples).Draw(t, "examplegrammar")
			}
		default:
			c.Origin = "rawsoup"
			// raw byte soup as the tag text, incl. NUL and invalid UTF-8
			raw := rapid.StringOfN(rapid.RuneFrom([]rune("@()[]{}|?*+!~:=\"'`aI /\x00\\\n:日")), 0, 14, -1).Draw(t, "raw")
			c.Fields = []c19Field{{Type: "string", Raw: raw, Form: rapid.IntRange(0, 1).Draw(t, "form")}}
			if raw == "" {
				c.Fields[0].Raw = "@"
			}
			// the soup may be the tag of a later field: every tag of a struct is lexed with the same care as the first
			if rapid.Bool().Draw(t, "later") {
				c.Fields = append([]c19Field{{Type: "string", Toks: []tagTok{{"@", "@"}, {"ident", "Ident"}}, Form: rapid.IntRange(0, 1).Draw(t, "form0")}}, c.Fields...)
				if rapid.Bool().Draw(t, "after") {
					c.Fields = append(c.Fields, c19Field{Type: "string", Toks: []tagTok{{"@", "@"}, {"ident", "Int"}}})
				}
			}
		}
		report(t, r, checkC19(c, r), c)
	}
}

func TestC19Replay(t *testing.T) {
	replayAll(t, "C19", func(raw json.RawMessage) outcome {
		var c c19Case
		if err := json.Unmarshal(raw, &c); err != nil {
			return violationf("harness", "bad replay: %v", err)
		}
		return checkC19(&c, nil)
	})
}
