package props

import (
	"bytes"
	"encoding/json"
	"fmt"
	"io"
	"reflect"
	"strings"
	"testing"
	"testing/iotest"
	"text/scanner"
	"unicode"

	"github.com/alecthomas/participle/v2"
	"github.com/alecthomas/participle/v2/lexer"
	"pgregory.net/rapid"

	"verifharness/fixtures"
	"verifharness/gram"
	"verifharness/lexgen"
	"verifharness/vstat"
)

// ---- C15: all entry points agree ----

type c15Case struct {
	Fixture  string        `json:"fixture,omitempty"`
	G        *gram.Grammar `json:"grammar,omitempty"`
	Mapped   bool          `json:"mapped,omitempty"` // generated grammar built with an Upper("Ident") mapper
	Retype   bool          `json:"retype,omitempty"` // ... and a Map function that turns some Ident tokens into Int tokens
	Filename string        `json:"filename"`
	InputHex string        `json:"input_hex"`
	Input    string        `json:"input,omitempty"`
	Text     string        `json:"grammar_text,omitempty"`
	// lexer-definition cases: a generated rule set and several inputs (hex) whose lexers are alive at the same time
	RS        *lexgen.RuleSet `json:"rules,omitempty"`
	InputsHex []string        `json:"inputs_hex,omitempty"`
	// ... or a text/scanner definition with a configuration of the caller's (lexer.NewTextScannerLexer): 1 keeps
	// comments, 2 scans neither floats nor chars, 3 treats '-' as part of an identifier
	ScanCfg int `json:"scan_cfg,omitempty"`
}

// scanCfgDef builds the configured text/scanner definition of a case (C15-r12m1: an entry point that forgets the
// caller's configuration tokenises differently from the others).
func scanCfgDef(n int) lexer.Definition {
	return lexer.NewTextScannerLexer(func(s *scanner.Scanner) {
		switch n {
		case 1:
			s.Mode &^= scanner.SkipComments
		case 2:
			s.Mode &^= scanner.ScanFloats | scanner.ScanChars
		case 3:
			s.IsIdentRune = func(ch rune, i int) bool {
				return ch == '_' || unicode.IsLetter(ch) || (i > 0 && (ch == '-' || unicode.IsDigit(ch)))
			}
		}
	})
}

func (c *c15Case) defText() string {
	if c.RS != nil {
		return c.RS.String()
	}
	return fmt.Sprintf("lexer.NewTextScannerLexer, configuration %d", c.ScanCfg)
}

// pue = parser under examination: the entry points of one parser, type-erased.
type pue struct {
	name      string
	parse     func(entry, filename string, in []byte, opts ...participle.ParseOption) (any, error)
	fromLexer func(pl *lexer.PeekingLexer, opts ...participle.ParseOption) (any, error)
	lex       func(filename string, in []byte) ([]lexer.Token, error)
	def       lexer.Definition
	elided    []string
	built     *gram.Built // generated grammars only
}

func pueForFixture(f *fixtures.Fixture) *pue {
	return &pue{name: f.Name, parse: f.Parse, fromLexer: f.ParseFromLexer, lex: f.Lex, def: f.Def(), elided: f.Elided}
}

func pueForGrammar(b *gram.Built) *pue {
	p := putForGrammar(b)
	return &pue{name: "generated", parse: func(entry, filename string, in []byte, opts ...participle.ParseOption) (any, error) {
		switch entry {
		case "onebyte":
			ast, err := b.P.Parse(filename, iotest.OneByteReader(bytes.NewReader(in)), opts...)
			if ast == nil {
				return nil, err
			}
			return ast, err
		}
		return p.parse(entry, filename, in, opts...)
	}, fromLexer: func(pl *lexer.PeekingLexer, opts ...participle.ParseOption) (any, error) {
		ast, err := b.P.ParseFromLexer(pl, opts...)
		if ast == nil {
			return nil, err
		}
		return ast, err
	}, lex: p.lex, def: b.P.Lexer(), elided: b.G.Elide, built: b}
}

const c15Rule = "parsers over the default, stateful and mapped (Unquote/Upper) lexers: ported example grammars and generated grammars, valid " +
	"and invalid inputs (samples, mutations, nested inputs of depth 1-60 for the Trace comparison), several filenames; oracle " +
	"(differential): Parse from a reader (also a one-byte-at-a-time and a multi-part reader), ParseString, ParseBytes and " +
	"ParseFromLexer(Upgrade(definition.Lex(...), elided types)) return deeply equal ASTs and identical error texts; Parser.Lex equals the " +
	"tokens obtained by draining the parser's definition, and Lex/LexString/LexBytes of a definition yield identical streams, also when " +
	"several lexers of the definition (ported example lexers, the parser's own, generated multi-state rule sets, lexer.NewTextScannerLexer with a configuration that keeps comments / scans no floats / widens identifiers, on different inputs) are alive and drained in turns, out of step; with " +
	"Trace(w) and Trace(nil) the result is identical; a panic that only some entry points raise is a disagreement; definitions are also read through one-byte and data-with-EOF readers; with  ParseFromLexer as the first call on a freshly built parser agrees too; with AllowTrailing the caller's PeekingLexer ends at the first token the " +
	"reference parser did not consume, by Peek and by raw cursor (generated grammars); non-trivial = mapped lexer, or an error result, or trailing input; " +
	"distinct by SHA-256 of the case"

func errText(err error) string {
	if err == nil {
		return "<nil>"
	}
	return err.Error()
}

func drainDef(def lexer.Definition, how, filename string, in []byte) ([]lexer.Token, error, bool) {
	var l lexer.Lexer
	var err error
	switch how {
	case "string":
		sd, ok := def.(lexer.StringDefinition)
		if !ok {
			return nil, nil, false
		}
		l, err = sd.LexString(filename, string(in))
	case "bytes":
		bd, ok := def.(lexer.BytesDefinition)
		if !ok {
			return nil, nil, false
		}
		l, err = bd.LexBytes(filename, in)
	case "dataerr":
		// a reader that hands out its last bytes together with io.EOF (as decompressors do)
		l, err = def.Lex(filename, iotest.DataErrReader(bytes.NewReader(in)))
	case "onebyte":
		l, err = def.Lex(filename, iotest.OneByteReader(bytes.NewReader(in)))
	default:
		l, err = def.Lex(filename, bytes.NewReader(in))
	}
	if err != nil {
		return nil, err, true
	}
	toks, err := lexer.ConsumeAll(l)
	return toks, err, true
}

// drainInterleaved opens one lexer per available entry point on the same input and drains them in turns and out
// of step (lexer i takes i+1 tokens per turn): live lexers of one definition must not influence each other.
func drainInterleaved(def lexer.Definition, filename string, in []byte) (hows []string, toks [][]lexer.Token, errs []error) {
	var ls []lexer.Lexer
	open := func(how string, l lexer.Lexer, err error) {
		hows = append(hows, how)
		ls = append(ls, l)
		toks = append(toks, nil)
		errs = append(errs, err)
	}
	l, err := def.Lex(filename, bytes.NewReader(in))
	open("reader", l, err)
	if sd, ok := def.(lexer.StringDefinition); ok {
		l, err := sd.LexString(filename, string(in))
		open("string", l, err)
	}
	if bd, ok := def.(lexer.BytesDefinition); ok {
		l, err := bd.LexBytes(filename, in)
		open("bytes", l, err)
	}
	l, err = def.Lex(filename, bytes.NewReader(in))
	open("reader#2", l, err)
	done := make([]bool, len(ls))
	for live := len(ls); live > 0; {
		live = 0
		for i, l := range ls {
			if done[i] || errs[i] != nil || l == nil {
				done[i] = true
				continue
			}
			for k := 0; k <= i && !done[i]; k++ {
				t, err := l.Next()
				if err != nil {
					errs[i], done[i] = err, true
					break
				}
				toks[i] = append(toks[i], t)
				if t.EOF() || len(toks[i]) > len(in)+2 {
					done[i] = true
				}
			}
			if !done[i] {
				live++
			}
		}
	}
	return
}

func sameToks(a, b []lexer.Token) bool {
	if len(a) != len(b) {
		return false
	}
	for i := range a {
		if a[i] != b[i] {
			return false
		}
	}
	return true
}

func checkC15(p *pue, c *c15Case, r *vstat.Run) outcome {
	in, _ := hexBytes(c.InputHex)
	short := string(in)
	if len(short) > 160 {
		short = short[:160] + "…"
	}
	desc := fmt.Sprintf("%s grammar, filename %q, input %q", p.name, c.Filename, short)
	if c.G != nil {
		desc += "\n" + c.G.String()
	}
	if f19Excluded(c.Fixture, in) {
		// C06's known finding F19 (exponential backtracking of the sql example): not this property's business
		if r != nil {
			r.Count("skipped_sql_deep_nesting(C06_known_finding_F19)")
		}
		return outcome{}
	}
	if p.built != nil {
		// cost guard: ambiguous recursive grammars backtrack exponentially (known finding F19 class); cases whose
		// reference evaluation exceeds the step budget are discarded before the real parser runs
		if lx, err := p.built.Lex(string(in)); err == nil {
			if _, _, _, _, expensive := runModel(p.built, lx, false); expensive {
				if r != nil {
					r.Count("skipped_expensive")
				}
				return outcome{}
			}
		}
	}
	type res struct {
		ast any
		err error
	}
	results := map[string]res{}
	entries := []string{"string", "bytes", "reader", "slowreader", "onebyte", "dataerr"}
	var pm string
	for _, e := range entries {
		e := e
		if m := guard(func() {
			ast, err := p.parse(e, c.Filename, in)
			results[e] = res{ast, err}
		}); m != "" {
			pm = e + ": " + m
		}
	}
	if pm != "" {
		// a panic is C06's business -- unless the entry points disagree about it: ParseFromLexer over the same tokens
		var flPanic string
		var flRan bool
		_ = guard(func() {
			syms := p.def.Symbols()
			var elide []lexer.TokenType
			for _, e := range p.elided {
				if tt, ok := syms[e]; ok {
					elide = append(elide, tt)
				}
			}
			l, err := p.def.Lex(c.Filename, bytes.NewReader(in))
			if err != nil {
				return
			}
			pl, err := lexer.Upgrade(l, elide...)
			if err != nil {
				return
			}
			flRan = true
			flPanic = guard(func() { _, _ = p.fromLexer(pl) })
		})
		if flRan && flPanic == "" {
			return violationf("panic-differs", "%s: entry point %s, but ParseFromLexer over the parser's own token stream returns normally", desc, pm)
		}
		if r != nil {
			r.Count("panic_left_to_C06")
		}
		return outcome{}
	}
	base := results["string"]
	if r != nil {
		r.Eval()
		nt := base.err != nil || p.name != "generated" && len(p.elided) >= 0 && c.Fixture != ""
		if base.err != nil {
			r.Count("error_result")
		}
		if c.Mapped {
			r.Count("mapped_generated_grammar")
			nt = true
		}
		if nt {
			r.NonTrivial(mustJSON(c), func() any {
				cc := *c
				cc.G = nil
				return cc
			})
		}
	}
	for _, e := range entries[1:] {
		o := results[e]
		if errText(o.err) != errText(base.err) {
			return violationf("error-differs", "%s: ParseString returns error %q but entry point %q returns %q", desc, errText(base.err), e, errText(o.err))
		}
		if !reflect.DeepEqual(o.ast, base.ast) {
			return violationf("ast-differs", "%s: entry point %q returns a different AST than ParseString", desc, e)
		}
	}
	// the same call on a parser that has not been used before (the shared one has lexed and parsed other inputs)
	if c.G != nil {
		var fr res
		var ferr error
		if m := guard(func() {
			fb, err := buildC15(c.G, c.Mapped, c.Retype)
			if err != nil {
				ferr = err
				return
			}
			fr.ast, fr.err = pueForGrammar(fb).parse("reader", c.Filename, in)
		}); m == "" && ferr == nil {
			if errText(fr.err) != errText(base.err) {
				return violationf("error-differs", "%s: ParseString on the parser in use returns error %q, Parse(reader) on a freshly built parser returns %q", desc, errText(base.err), errText(fr.err))
			}
			plainOf := func(v any) string {
				if v == nil {
					return "<nil>"
				}
				return gram.Plain(reflect.ValueOf(v))
			}
			if plainOf(fr.ast) != plainOf(base.ast) {
				return violationf("ast-differs", "%s: Parse(reader) on a freshly built parser returns a different AST than ParseString on the parser in use", desc)
			}
		}
	}
	// ParseFromLexer as the very first call on a freshly built parser
	if c.G != nil {
		var fr res
		var skip bool
		if m := guard(func() {
			fb, err := buildC15(c.G, c.Mapped, c.Retype)
			if err != nil {
				skip = true
				return
			}
			fp := pueForGrammar(fb)
			fsyms := fp.def.Symbols()
			var felide []lexer.TokenType
			for _, e := range fp.elided {
				if tt, ok := fsyms[e]; ok {
					felide = append(felide, tt)
				}
			}
			l, err := fp.def.Lex(c.Filename, bytes.NewReader(in))
			if err != nil {
				skip = true
				return
			}
			fpl, err := lexer.Upgrade(l, felide...)
			if err != nil {
				skip = true
				return
			}
			fr.ast, fr.err = fp.fromLexer(fpl)
		}); m == "" && !skip {
			if errText(fr.err) != errText(base.err) {
				return violationf("error-differs", "%s: ParseString on the parser in use returns error %q, ParseFromLexer as the first call on a freshly built parser returns %q", desc, errText(base.err), errText(fr.err))
			}
			if fr.err == nil && base.ast != nil && fr.ast != nil && gram.Plain(reflect.ValueOf(fr.ast)) != gram.Plain(reflect.ValueOf(base.ast)) {
				return violationf("ast-differs", "%s: ParseFromLexer as the first call on a freshly built parser returns a different AST than ParseString on the parser in use", desc)
			}
		}
	}
	// a reader that has a Name: the explicit filename wins, the reader's name is the fallback for ""
	{
		eff := c.Filename
		if eff == "" {
			eff = fixtures.ReaderName
		}
		var want, got res
		if m := guard(func() {
			want.ast, want.err = p.parse("string", eff, in)
			got.ast, got.err = p.parse("namedreader", c.Filename, in)
		}); m == "" {
			if errText(got.err) != errText(want.err) {
				return violationf("error-differs", "%s: Parse(%q, reader named %q) returns error %q but ParseString(%q, ...) returns %q", desc, c.Filename, fixtures.ReaderName, errText(got.err), eff, errText(want.err))
			}
			if !reflect.DeepEqual(got.ast, want.ast) {
				return violationf("ast-differs", "%s: Parse(%q, reader named %q) returns a different AST than ParseString(%q, ...)", desc, c.Filename, fixtures.ReaderName, eff)
			}
		}
	}
	// the entry points agree under AllowTrailing as well (options reach every entry point)
	{
		var rs [3]res
		if m := guard(func() {
			for i, e := range []string{"string", "bytes", "reader"} {
				rs[i].ast, rs[i].err = p.parse(e, c.Filename, in, participle.AllowTrailing(true))
			}
		}); m == "" {
			for i, e := range []string{"string", "bytes", "reader"} {
				if errText(rs[i].err) != errText(rs[0].err) {
					return violationf("error-differs", "%s: with AllowTrailing ParseString returns error %q but entry point %q returns %q", desc, errText(rs[0].err), e, errText(rs[i].err))
				}
				if !reflect.DeepEqual(rs[i].ast, rs[0].ast) {
					return violationf("ast-differs", "%s: with AllowTrailing entry point %q returns a different AST than ParseString", desc, e)
				}
			}
			if r != nil && rs[0].err == nil && base.err != nil {
				r.Count("accepted_only_with_allow_trailing")
			}
		}
	}
	// Parser.Lex == tokens of the parser's definition; Lex / LexString / LexBytes agree
	ptoks, perr := p.lex(c.Filename, in)
	dtoks, derr, _ := drainDef(p.def, "reader", c.Filename, in)
	if errText(perr) != errText(derr) || (perr == nil && !sameToks(ptoks, dtoks)) {
		return violationf("parser-lex", "%s: Parser.Lex (%d tokens, err %v) differs from draining the parser's lexer definition (%d tokens, err %v)", desc, len(ptoks), perr, len(dtoks), derr)
	}
	for _, how := range []string{"string", "bytes", "dataerr", "onebyte"} {
		toks, err, ok := drainDef(p.def, how, c.Filename, in)
		if !ok {
			continue
		}
		if errText(err) != errText(derr) || (err == nil && !sameToks(toks, dtoks)) {
			return violationf("lex-variants", "%s: the definition's stream through entry %q (%d tokens, err %v) differs from Lex(reader) (%d tokens, err %v)", desc, how, len(toks), err, len(dtoks), derr)
		}
	}
	var ihows []string
	var itoks [][]lexer.Token
	var ierrs []error
	if m := guard(func() { ihows, itoks, ierrs = drainInterleaved(p.def, c.Filename, in) }); m != "" {
		return violationf("panic", "%s: lexers drained in turns panicked: %s", desc, m)
	}
	for i := range ihows {
		if errText(ierrs[i]) != errText(derr) || (derr == nil && !sameToks(itoks[i], dtoks)) {
			return violationf("lex-interleaved", "%s: %d lexers of the definition drained in turns: the %q lexer yields %d tokens, err %v; drained alone the stream has %d tokens, err %v", desc, len(ihows), ihows[i], len(itoks[i]), ierrs[i], len(dtoks), derr)
		}
	}
	// ParseFromLexer over the parser's own token stream
	syms := p.def.Symbols()
	var elide []lexer.TokenType
	for _, e := range p.elided {
		if tt, ok := syms[e]; ok {
			elide = append(elide, tt)
		}
	}
	var fl res
	var pl *lexer.PeekingLexer
	var upErr error
	if m := guard(func() {
		l, err := p.def.Lex(c.Filename, bytes.NewReader(in))
		if err != nil {
			upErr = err
			return
		}
		pl, upErr = lexer.Upgrade(l, elide...)
		if upErr != nil {
			return
		}
		fl.ast, fl.err = p.fromLexer(pl)
	}); m != "" {
		return violationf("panic", "%s: ParseFromLexer panicked: %s", desc, m)
	}
	if upErr != nil {
		if errText(upErr) != errText(base.err) {
			return violationf("error-differs", "%s: lexing for ParseFromLexer fails with %q but ParseString returns %q", desc, errText(upErr), errText(base.err))
		}
	} else {
		if errText(fl.err) != errText(base.err) {
			return violationf("error-differs", "%s: ParseString returns error %q but ParseFromLexer returns %q", desc, errText(base.err), errText(fl.err))
		}
		if !reflect.DeepEqual(fl.ast, base.ast) {
			return violationf("ast-differs", "%s: ParseFromLexer returns a different AST than ParseString", desc)
		}
		if fl.err == nil && pl != nil {
			// a parse that succeeded without AllowTrailing consumed every non-elided token: the caller's lexer is at EOF
			if next := *pl.Peek(); !next.EOF() {
				return violationf("trailing-position", "%s: ParseFromLexer succeeded (no trailing input allowed) but the caller's lexer still stands at %#v", desc, next)
			}
		}
	}
	// Trace changes nothing but the trace output
	var tr res
	var buf bytes.Buffer
	if m := guard(func() { tr.ast, tr.err = p.parse("string", c.Filename, in, participle.Trace(&buf)) }); m != "" {
		return violationf("trace-panic", "%s: the parse panics only when the Trace option is given: %s", desc, m)
	}
	if errText(tr.err) != errText(base.err) || !reflect.DeepEqual(tr.ast, base.ast) {
		return violationf("trace-differs", "%s: the Trace option changes the result: error %q vs %q", desc, errText(tr.err), errText(base.err))
	}
	// a nil writer switches tracing off (the "nil unless debugging" idiom): the option is then no option at all
	{
		var tn res
		var w io.Writer
		if m := guard(func() { tn.ast, tn.err = p.parse("bytes", c.Filename, in, participle.Trace(w)) }); m != "" {
			return violationf("trace-panic", "%s: the parse panics only when the option Trace(nil) is given: %s", desc, m)
		}
		if errText(tn.err) != errText(base.err) || !reflect.DeepEqual(tn.ast, base.ast) {
			return violationf("trace-differs", "%s: the option Trace(nil) changes the result: error %q vs %q", desc, errText(tn.err), errText(base.err))
		}
	}
	// ... also next to another option, in either order (every option of a call takes effect)
	{
		var plain, t1, t2 res
		var b1, b2 bytes.Buffer
		if m := guard(func() {
			plain.ast, plain.err = p.parse("string", c.Filename, in, participle.AllowTrailing(true))
			t1.ast, t1.err = p.parse("string", c.Filename, in, participle.AllowTrailing(true), participle.Trace(&b1))
			t2.ast, t2.err = p.parse("bytes", c.Filename, in, participle.Trace(&b2), participle.AllowTrailing(true))
		}); m == "" {
			for i, tr := range []res{t1, t2} {
				if errText(tr.err) != errText(plain.err) || !reflect.DeepEqual(tr.ast, plain.ast) {
					return violationf("trace-differs", "%s: AllowTrailing(true) gives error %q, AllowTrailing(true) together with Trace (order %d) gives %q", desc, errText(plain.err), i+1, errText(tr.err))
				}
			}
		}
	}
	// AllowTrailing without a reference parser (example grammars): the caller's lexer must end where the parse
	// stopped, i.e. parsing exactly the text in front of the lexer's next token (no trailing input allowed) gives
	// the same AST
	if p.built == nil && perr == nil && upErr == nil {
		var pl3 *lexer.PeekingLexer
		var t3 res
		var err error
		if m := guard(func() {
			l, _ := p.def.Lex(c.Filename, bytes.NewReader(in))
			pl3, err = lexer.Upgrade(l, elide...)
			if err == nil {
				t3.ast, t3.err = p.fromLexer(pl3, participle.AllowTrailing(true))
			}
		}); m != "" {
			return violationf("panic", "%s: ParseFromLexer(AllowTrailing) panicked: %s", desc, m)
		}
		if err == nil && t3.err == nil {
			next := *pl3.Peek()
			cut := len(in)
			if !next.EOF() {
				cut = next.Pos.Offset
			}
			if cut >= 0 && cut <= len(in) {
				var t4 res
				if m := guard(func() { t4.ast, t4.err = p.parse("string", c.Filename, in[:cut]) }); m == "" {
					if r != nil && cut < len(in) {
						r.Count("trailing_input_left_for_the_caller")
					}
					if t4.err != nil || !reflect.DeepEqual(t3.ast, t4.ast) {
						return violationf("trailing-position", "%s: after ParseFromLexer with AllowTrailing the caller's lexer stands at offset %d (token %#v), but parsing exactly the text before it gives error %v / a different AST", desc, cut, next, t4.err)
					}
				}
			}
		}
	}
	// AllowTrailing: the caller's lexer ends at the first token the parse did not consume
	if p.built != nil && perr == nil {
		lx := gram.ToLexed(c.G, ptoks)
		_, ok, _, end, expensive := runModel(p.built, lx, true)
		if !expensive && ok {
			var pl2 *lexer.PeekingLexer
			var err error
			if m := guard(func() {
				l, _ := p.def.Lex(c.Filename, bytes.NewReader(in))
				pl2, err = lexer.Upgrade(l, elide...)
				if err == nil {
					_, err = p.fromLexer(pl2, participle.AllowTrailing(true))
				}
			}); m != "" {
				return violationf("panic", "%s: ParseFromLexer(AllowTrailing) panicked: %s", desc, m)
			}
			if err == nil {
				want := end
				for !ptoks[want].EOF() && lx.Toks[want].Elided {
					want++
				}
				if got := *pl2.Peek(); got != ptoks[want] {
					return violationf("trailing-position", "%s: after ParseFromLexer with AllowTrailing the caller's lexer is at %#v, the first unconsumed token is %#v", desc, got, ptoks[want])
				}
				// ... also for a caller who looks at the raw stream (a grammar may consume tokens of elided types by name)
				if raw := int(pl2.RawCursor()); raw != end || *pl2.RawPeek() != ptoks[end] {
					return violationf("trailing-position", "%s: after ParseFromLexer with AllowTrailing the caller's lexer has raw cursor %d (token %#v), the parse consumed %d tokens of the raw stream (next: %#v)", desc, raw, *pl2.RawPeek(), end, ptoks[end])
				}
				// ... and by the count of ordinary tokens consumed so far
				nonElided := 0
				for i := 0; i < end; i++ {
					if !lx.Toks[i].Elided && !lx.Toks[i].EOF {
						nonElided++
					}
				}
				if got := pl2.Cursor(); got != nonElided {
					return violationf("trailing-position", "%s: after ParseFromLexer with AllowTrailing the caller's lexer reports Cursor() = %d, the parse consumed %d tokens that are not elided", desc, got, nonElided)
				}
				if r != nil && !ptoks[want].EOF() {
					r.Count("trailing_input_left_for_the_caller")
				}
			}
		}
	}
	return outcome{}
}

// checkC15Lex: a definition's Lex, LexString and LexBytes yield identical streams, for every input, also while
// other lexers of the same definition (on other inputs) are alive and advanced in turns.
func checkC15Lex(c *c15Case, def lexer.Definition, r *vstat.Run) outcome {
	type stream struct {
		toks []lexer.Token
		err  error
	}
	var ins [][]byte
	for _, h := range c.InputsHex {
		b, _ := hexBytes(h)
		ins = append(ins, b)
	}
	desc := func(i int) string { return fmt.Sprintf("input %q\n%s", ins[i], c.defText()) }
	alone := make([]stream, len(ins))
	var out outcome
	if m := guard(func() {
		for i, in := range ins {
			t0, e0, _ := drainDef(def, "reader", c.Filename, in)
			// alone, keeping the tokens in front of an error
			if l, err := def.Lex(c.Filename, bytes.NewReader(in)); err != nil {
				alone[i].err = err
			} else {
				for {
					t, err := l.Next()
					if err != nil {
						alone[i].err = err
						break
					}
					alone[i].toks = append(alone[i].toks, t)
					if t.EOF() || len(alone[i].toks) > len(in)+2 {
						break
					}
				}
			}
			for _, how := range []string{"string", "bytes", "dataerr", "onebyte"} {
				t1, e1, ok := drainDef(def, how, c.Filename, in)
				if ok && (errText(e1) != errText(e0) || !sameToks(t1, t0)) {
					out = violationf("lex-variants", "Lex through entry %q yields %d tokens, err %v; Lex(reader) yields %d tokens, err %v\n%s", how, len(t1), e1, len(t0), e0, desc(i))
					return
				}
			}
			if r != nil {
				r.Eval()
			}
		}
		// all lexers alive at once, entry points rotated, drained in turns and out of step
		hows := []string{"reader"}
		if _, ok := def.(lexer.StringDefinition); ok {
			hows = append(hows, "string")
		}
		if _, ok := def.(lexer.BytesDefinition); ok {
			hows = append(hows, "bytes")
		}
		hows = append(hows, "reader")
		ls := make([]lexer.Lexer, len(ins))
		got := make([]stream, len(ins))
		done := make([]bool, len(ins))
		for i, in := range ins {
			var err error
			switch hows[i%len(hows)] {
			case "string":
				ls[i], err = def.(lexer.StringDefinition).LexString(c.Filename, string(in))
			case "bytes":
				ls[i], err = def.(lexer.BytesDefinition).LexBytes(c.Filename, in)
			default:
				ls[i], err = def.Lex(c.Filename, bytes.NewReader(in))
			}
			if err != nil {
				got[i].err, done[i] = err, true
			}
		}
		for live := 1; live > 0; {
			live = 0
			for i, l := range ls {
				for k := 0; k <= i%3 && !done[i]; k++ {
					t, err := l.Next()
					if err != nil {
						got[i].err, done[i] = err, true
						break
					}
					got[i].toks = append(got[i].toks, t)
					if t.EOF() || len(got[i].toks) > len(ins[i])+2 {
						done[i] = true
					}
				}
				if !done[i] {
					live++
				}
			}
		}
		for i := range ins {
			if errText(got[i].err) != errText(alone[i].err) || !sameToks(got[i].toks, alone[i].toks) {
				out = violationf("lex-interleaved", "%d lexers of one definition were alive and drained in turns; lexer %d (%s) yields %d tokens, err %v, but alone it yields %d tokens, err %v\n%s",
					len(ins), i, hows[i%len(hows)], len(got[i].toks), got[i].err, len(alone[i].toks), alone[i].err, desc(i))
				return
			}
		}
	}); m != "" {
		return violationf("panic", "lexing panicked: %s\n%s", m, c.defText())
	}
	return out
}

func hexBytes(h string) ([]byte, error) {
	lc := lexCase{InputHex: h}
	lc.fix()
	return []byte(lc.Input), nil
}

// buildC15 builds a generated grammar, optionally behind mappers: Upper("Ident"), and a Map function that gives Ident
// tokens containing "b" the type Int (a type the lexer also emits natively).
func buildC15(g *gram.Grammar, mapped, retype bool) (*gram.Built, error) {
	var opts []participle.Option
	if retype {
		intType := g.Prof().Def.Symbols()["Int"]
		opts = append(opts, participle.Map(func(t lexer.Token) (lexer.Token, error) {
			if strings.ContainsAny(t.Value, "bB") {
				t.Type = intType
			}
			// a rewrite that leaves every Ident alone but would show on a native Int token, should this
			// function ever be applied to one
			t.Value = strings.ReplaceAll(t.Value, "1", "I")
			return t, nil
		}, "Ident"))
	}
	if mapped {
		opts = append(opts, participle.Upper("Ident"))
	}
	return gram.Build(g, opts...)
}

func TestC15(t *testing.T) {
	fxs := fixtures.All()
	runProp(t, "C15", c15Rule, func(t *rapid.T, r *vstat.Run) {
		filename := rapid.SampledFrom([]string{"f", "", "dir/x.cfg"}).Draw(t, "filename")
		kind := rapid.IntRange(0, 11).Draw(t, "kind")
		if kind >= 10 && rapid.IntRange(0, 3).Draw(t, "scancfg?") == 0 {
			// a lexer definition on its own: text/scanner with a configuration of the caller's
			c := &c15Case{ScanCfg: rapid.IntRange(1, 3).Draw(t, "scancfg"), Filename: filename}
			c.Text = c.defText()
			words := []string{"a", "b-c", "12", "1.5", "// c\n", "/* x */", "\"s\"", "+", " ", "\n", "'c'", "`r`", "-", "x1", ".", "é"}
			for i, n := 0, rapid.IntRange(2, 4).Draw(t, "nlexers"); i < n; i++ {
				var sb strings.Builder
				for j, m := 0, rapid.IntRange(0, 8).Draw(t, "nwords"); j < m; j++ {
					sb.WriteString(rapid.SampledFrom(words).Draw(t, "word"))
					if rapid.Bool().Draw(t, "sp") {
						sb.WriteString(" ")
					}
				}
				c.InputsHex = append(c.InputsHex, fmt.Sprintf("%x", sb.String()))
			}
			r.Count("configured_text_scanner_cases")
			r.NonTrivial(mustJSON(c), func() any { return c })
			report(t, r, checkC15Lex(c, scanCfgDef(c.ScanCfg), r), c)
			return
		}
		if kind >= 10 {
			// a lexer definition on its own: generated multi-state rule sets
			g := lexgen.GenRuleSet(t, lexgen.RuleOpts{})
			def, rej := newDef(g.RS)
			if rej != "" {
				r.Count("definition_rejected")
				return
			}
			c := &c15Case{RS: g.RS, Filename: filename, Text: g.RS.String()}
			for i, n := 0, rapid.IntRange(2, 5).Draw(t, "nlexers"); i < n; i++ {
				c.InputsHex = append(c.InputsHex, fmt.Sprintf("%x", g.GenInput(t)))
			}
			r.Count("lexer_definition_cases")
			r.NonTrivial(mustJSON(c), func() any { return c })
			report(t, r, checkC15Lex(c, def, r), c)
			return
		}
		if kind <= 5 && len(fxs) > 0 {
			f := fxs[rapid.IntRange(0, len(fxs)-1).Draw(t, "fixture")]
			var base []byte
			if f.Nesting != nil && rapid.IntRange(0, 4).Draw(t, "nest?") == 0 {
				base = []byte(f.Nesting(rapid.IntRange(1, 60).Draw(t, "nest")))
			} else {
				base = []byte(f.Samples[rapid.IntRange(0, len(f.Samples)-1).Draw(t, "sample")])
			}
			in, _ := mutateBytes(t, base)
			c := &c15Case{Fixture: f.Name, Filename: filename, InputHex: fmt.Sprintf("%x", in)}
			if len(in) < 300 && strings.ToValidUTF8(string(in), "�") == string(in) {
				c.Input = string(in)
			}
			report(t, r, checkC15(pueForFixture(f), c, r), c)
			return
		}
		g := gram.GenGrammar(t, gram.GenOpts{MaxProds: 4, MaxDepth: 3, TrapPercent: 15, PosStyles: true, Profiles: true, Parseables: true})
		if rapid.IntRange(0, 7).Draw(t, "recsys") == 0 {
			// recursive systems, incl. choices with an alternative that can match nothing (the library panics with a
			// participle.Error for those: through every entry point alike)
			g, _ = gram.GenRecSystem(t)
		}
		mapped := rapid.IntRange(0, 2).Draw(t, "mapped") == 0
		retype := rapid.IntRange(0, 3).Draw(t, "retype") == 0
		var b *gram.Built
		var err error
		if m := guard(func() {
			if mapped {
				g.CI = []string{"Ident"}
			}
			b, err = buildC15(g, mapped, retype)
		}); m != "" || err != nil {
			r.Count("build_failed_left_to_C19")
			return
		}
		for i := 0; i < 3; i++ {
			in := []byte(gram.Render(t, g, gram.GenInput(t, g), "r"))
			c := &c15Case{G: g, Mapped: mapped, Retype: retype, Filename: filename, InputHex: fmt.Sprintf("%x", in), Input: string(in)}
			report(t, r, checkC15(pueForGrammar(b), c, r), c)
		}
	})
}

func TestC15Replay(t *testing.T) {
	replayAll(t, "C15", func(raw json.RawMessage) outcome {
		var c c15Case
		if err := json.Unmarshal(raw, &c); err != nil {
			return violationf("harness", "bad replay: %v", err)
		}
		if c.ScanCfg != 0 {
			return checkC15Lex(&c, scanCfgDef(c.ScanCfg), nil)
		}
		if c.RS != nil {
			def, rej := newDef(c.RS)
			if rej != "" {
				return outcome{}
			}
			return checkC15Lex(&c, def, nil)
		}
		if c.G != nil {
			var b *gram.Built
			var err error
			b, err = buildC15(c.G, c.Mapped, c.Retype)
			if err != nil {
				return outcome{}
			}
			return checkC15(pueForGrammar(b), &c, nil)
		}
		f := fixtures.Get(c.Fixture)
		if f == nil {
			return violationf("harness", "unknown fixture %q", c.Fixture)
		}
		return checkC15(pueForFixture(f), &c, nil)
	})
}
