package props

import (
	"encoding/json"
	"fmt"
	"os"
	"path/filepath"
	"sort"
	"testing"

	"pgregory.net/rapid"

	"verifharness/gram"
	"verifharness/srcgen"
	"verifharness/vstat"
)

// ---- C14 emit stage: generated grammars as Go source with named types ----

func genC14Grammar(seed int) *gram.Grammar {
	g := rapid.Custom(func(t *rapid.T) *gram.Grammar {
		o := gram.GenOpts{MaxProds: 5, MaxDepth: 4, TrapPercent: 10, PosStyles: true, MixedUnion: true, DirectRec: true, WildLits: true, Embeds: true, Parseables: true,
			NameElided: rapid.IntRange(0, 5).Draw(t, "named") == 0}
		return gram.GenGrammar(t, o)
	})
	if seed%40 == 7 {
		return gram.ChainGrammar(17 + seed%23) // more productions than any fixed-size table of the printer
	}
	gr := g.Example(seed)
	if seed%6 == 4 {
		graftNegatedNegationGroup(gr, seed/6)
	}
	if seed%6 == 2 {
		graftCapturedBracket(gr, seed/6)
	}
	return gr
}

// graftCapturedBracket appends `@{ x }?`, `@[ x ]!`, `( @{ x } )?` ... (a capture right in front of a bracket group,
// with a modifier behind it) and a field of its own to one production: the printer must not put the two modifiers
// side by side (C14-r12m1). Appended at the end, so the indexes of the other fields stay as they are.
func graftCapturedBracket(g *gram.Grammar, k int) {
	var leaf *gram.Expr
	var find func(e *gram.Expr)
	find = func(e *gram.Expr) {
		if e == nil || leaf != nil {
			return
		}
		if e.Kind == gram.KLit || e.Kind == gram.KRef {
			leaf = e
			return
		}
		for _, kid := range e.Kids {
			find(kid)
		}
	}
	for _, p := range g.Prods {
		find(p.Expr)
	}
	if leaf == nil || len(g.Prods) == 0 {
		return
	}
	x := *leaf
	in := gram.Group([]string{"*", "?"}[k%2], &x)
	in.Style = 1
	p := g.Prods[(k/8)%len(g.Prods)]
	c := gram.Cap(in)
	c.T = "bare" // rendered `@{ x }`, not `@( { x } )`
	c.Field = len(p.Fields)
	p.Fields = append(p.Fields, gram.Field{Kind: gram.FStrs, Prod: -1, Uni: -1})
	o := gram.Group([]string{"?", "!"}[(k/2)%2], c)
	o.Style = 2 + (k/4)%2
	p.Expr = gram.Seq(p.Expr, o)
}

// graftNegatedNegationGroup puts `~( (~x)* )` (the inner group with any modifier and bracket style, optionally with a
// tail) in front of one production: the printer has to keep the parentheses that separate the two `~` (C14-r11m1).
// The free generator reaches this shape in under 1% of the grammars.
func graftNegatedNegationGroup(g *gram.Grammar, k int) {
	var leaf *gram.Expr
	var find func(e *gram.Expr)
	find = func(e *gram.Expr) {
		if e == nil || leaf != nil {
			return
		}
		if e.Kind == gram.KLit || e.Kind == gram.KRef {
			leaf = e
			return
		}
		for _, kid := range e.Kids {
			find(kid)
		}
	}
	for _, p := range g.Prods {
		find(p.Expr)
	}
	if leaf == nil || len(g.Prods) == 0 {
		return
	}
	cp := func() *gram.Expr { c := *leaf; return &c }
	var body *gram.Expr = gram.Not(cp())
	if k%3 == 0 {
		body = gram.Seq(body, cp())
	}
	grp := gram.Group([]string{"*", "?", "+", "!"}[(k/3)%4], body)
	grp.Style = (k / 12) % 3
	p := g.Prods[(k/36)%len(g.Prods)]
	p.Expr = gram.Seq(gram.Not(grp), p.Expr)
}

func TestC14Emit(t *testing.T) {
	work := os.Getenv("VERIF_WORK")
	if work == "" || os.Getenv("VERIF_C14") == "" {
		t.Skip("emit stage is driven by bin/check")
	}
	n := vstat.EnvInt("VERIF_C14_GRAMMARS", 150)
	seed := vstat.EnvInt("VERIF_SEED", 1)
	var cases []*srcgen.C14Case
	if rp := os.Getenv("VERIF_C14_REPLAY"); rp != "" {
		files, _ := filepath.Glob(filepath.Join(rp, "*.json"))
		if fi, err := os.Stat(rp); err == nil && !fi.IsDir() {
			files = []string{rp}
		}
		kfiles, _ := filepath.Glob(filepath.Join(rp, "known", "*.json"))
		files = append(files, kfiles...)
		sort.Strings(files)
		for i, f := range files {
			fl, err := loadFailure(f)
			if err != nil {
				continue
			}
			var c srcgen.C14Case
			if err := json.Unmarshal(fl.Case, &c); err != nil || c.G == nil {
				continue
			}
			cases = append(cases, &srcgen.C14Case{ID: i, G: c.G})
		}
	} else {
		for i := 0; i < n; i++ {
			cases = append(cases, &srcgen.C14Case{ID: i, G: genC14Grammar(seed*100000 + i)})
		}
	}
	if err := srcgen.EmitC14(filepath.Join(work, "c14pkg"), "c14pkg", cases); err != nil {
		t.Fatalf("harness: emit failed: %v", err)
	}
	fmt.Printf("EMITTED %d grammars\n", len(cases))
}

// TestC14Replay: saved cases need the compile stage (bin/check replays them through the emit pipeline).
func TestC14Replay(t *testing.T) {
	r := vstat.For("C14")
	for k, v := range r.KnownSigs() {
		fmt.Printf("KNOWN-FINDING: property=C14 sig=%s %s\n", k, v)
	}
}
