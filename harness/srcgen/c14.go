package srcgen

import (
	"encoding/json"
	"fmt"
	"os"
	"path/filepath"
	"reflect"
	"sort"
	"strconv"
	"strings"
	"testing"

	"github.com/alecthomas/participle/v2/ebnf"

	"verifharness/gram"
	"verifharness/vstat"
)

// C14Case is one grammar rendered with named types.
type C14Case struct {
	ID   int           `json:"id"`
	G    *gram.Grammar `json:"grammar"`
	Text string        `json:"grammar_text,omitempty"`
}

// altGrammar is the same set of types built a second time with other union member lists (first
// member of every multi-member union dropped): two parsers for one root type in one process.
func altGrammar(g *gram.Grammar) *gram.Grammar {
	alt := *g
	alt.Unions = nil
	changed := false
	for _, u := range g.Unions {
		nu := gram.Union{Members: append([]int(nil), u.Members...), Ptr: append([]bool(nil), u.Ptr...)}
		if len(nu.Members) >= 2 {
			nu.Members, nu.Ptr = nu.Members[1:], nu.Ptr[1:]
			changed = true
		}
		alt.Unions = append(alt.Unions, nu)
	}
	if !changed {
		return nil
	}
	return &alt
}

// EmitC14 writes a package with one file of named types per grammar.
func EmitC14(dir, pkg string, cases []*C14Case) error {
	if err := os.MkdirAll(dir, 0o755); err != nil {
		return err
	}
	var reg []string
	for _, c := range cases {
		prefix := fmt.Sprintf("G%d", c.ID)
		src := "package " + pkg + "\n\nimport (\n\t\"github.com/alecthomas/participle/v2\"\n\t\"github.com/alecthomas/participle/v2/lexer\"\n\n\t\"verifharness/gram\"\n)\n\nvar _ lexer.Token\nvar _ gram.MyPos\n\n" + c.G.GoSource(prefix)
		if alt := altGrammar(c.G); alt != nil {
			src += c.G.GoBuildFunc(prefix, "Build"+prefix+"Alt", alt.Unions)
			reg = append(reg, fmt.Sprintf("\t\t%d: Build%sAlt,", 100000+c.ID, prefix))
		}
		// the root union itself as the grammar: Build[U0](Union[U0](...))
		src += strings.Replace(c.G.GoBuildFunc(prefix, "Build"+prefix+"UnionRoot", c.G.Unions), "participle.Build["+gram.RootName(prefix)+"]", "participle.Build["+gram.UnionName(prefix, 0)+"]", 1)
		reg = append(reg, fmt.Sprintf("\t\t%d: Build%sUnionRoot,", 200000+c.ID, prefix))
		if err := os.WriteFile(filepath.Join(dir, fmt.Sprintf("g%d.go", c.ID)), []byte(src), 0o644); err != nil {
			return err
		}
		reg = append(reg, fmt.Sprintf("\t\t%d: Build%s,", c.ID, prefix))
	}
	data, err := json.Marshal(cases)
	if err != nil {
		return err
	}
	if err := os.WriteFile(filepath.Join(dir, "cases.json"), data, 0o644); err != nil {
		return err
	}
	src := fmt.Sprintf(`package %s

import (
	"testing"

	"verifharness/srcgen"
)

func TestRun(t *testing.T) {
	srcgen.RunC14(t, map[int]func() (string, error){
%s
	}, "cases.json")
}
`, pkg, strings.Join(reg, "\n"))
	return os.WriteFile(filepath.Join(dir, "run_test.go"), []byte(src), 0o644)
}

// ---- oracle ----

// bag is a multiset of grammar items: literals, token references, production references, operators.
type bag map[string]int

func (b bag) add(kind, text string) { b[kind+":"+text]++ }

func (b bag) String() string {
	keys := make([]string, 0, len(b))
	for k := range b {
		keys = append(keys, k)
	}
	sort.Strings(keys)
	var sb strings.Builder
	for _, k := range keys {
		fmt.Fprintf(&sb, "%s x%d; ", k, b[k])
	}
	return sb.String()
}

// expectedBag lists what the EBNF of one production must contain, computed from the IR.
func expectedBag(g *gram.Grammar, prefix string, p *gram.Prod, e *gram.Expr, b bag) {
	switch e.Kind {
	case gram.KPars:
		// a production implemented by user code is referred to by its type name and defined nowhere
		b.add("prod", userProductionName(p.Fields[e.Field].Kind))
	case gram.KLit:
		b.add("lit", e.S)
	case gram.KRef:
		b.add("tok", strings.ToLower(e.T))
	case gram.KSub:
		if e.Uni >= 0 {
			b.add("prod", gram.UnionName(prefix, e.Uni))
		} else {
			b.add("prod", gram.ProdName(prefix, e.Prod))
		}
	case gram.KGroup:
		if e.Mod != "" {
			b.add("op", e.Mod)
		}
	case gram.KNeg:
		b.add("op", "~")
	case gram.KLook:
		if e.Neg {
			b.add("op", "?!")
		} else {
			b.add("op", "?=")
		}
	}
	for _, k := range e.Kids {
		expectedBag(g, prefix, p, k, b)
	}
}

// userProductionName is the EBNF name of the user-implemented production behind a field kind.
func userProductionName(k gram.FKind) string {
	switch k {
	case gram.FParsR:
		return "PTokR"
	case gram.FParsN:
		return "PNest"
	case gram.FCust, gram.FCusts:
		return "PI"
	}
	return "PTok"
}

var userProductions = map[string]bool{"PTok": true, "PTokR": true, "PNest": true, "PI": true}

func actualBag(e *ebnf.Expression, b bag, refs map[string]int) error {
	for _, seq := range e.Alternatives {
		for _, t := range seq.Terms {
			if t.Negation {
				b.add("op", "~")
			}
			if t.Repetition != "" {
				b.add("op", t.Repetition)
			}
			switch {
			case t.Name != "":
				b.add("prod", t.Name)
				refs[t.Name]++
			case t.Literal != "":
				s, err := strconv.Unquote(t.Literal)
				if err != nil {
					return fmt.Errorf("literal %s is not a valid Go string: %v", t.Literal, err)
				}
				b.add("lit", s)
			case t.Token != "":
				b.add("tok", t.Token)
			case t.Group != nil:
				switch t.Group.Lookahead {
				case ebnf.LookaheadAssertionNegative:
					b.add("op", "?!")
				case ebnf.LookaheadAssertionPositive:
					b.add("op", "?=")
				}
				if err := actualBag(t.Group.Expr, b, refs); err != nil {
					return err
				}
			}
		}
	}
	return nil
}

// reachable lists the productions and unions that the root reaches (what String() must define).
func reachable(g *gram.Grammar) (prods map[int]bool, unions map[int]bool) {
	prods, unions = map[int]bool{}, map[int]bool{}
	var walkU func(u int)
	var walkP func(p int)
	walkP = func(p int) {
		if prods[p] {
			return
		}
		prods[p] = true
		g.Prods[p].Expr.Walk(func(e *gram.Expr) {
			if e.Kind == gram.KSub {
				if e.Uni >= 0 {
					walkU(e.Uni)
				} else {
					walkP(e.Prod)
				}
			}
		})
	}
	walkU = func(u int) {
		if unions[u] {
			return
		}
		unions[u] = true
		for _, m := range g.Unions[u].Members {
			walkP(m)
		}
	}
	walkU(0)
	return
}

const c14Rule = "generated grammars rendered as Go source with NAMED types (every operator and nesting, unions, direct and union-mediated " +
	"recursion, typed literals, literals needing escapes, embedded structs, embedded/convertible position fields), several hundred per " +
	"compile; oracle: Parser.String() returns without panic, ebnf.ParseString accepts it, the first production is the root, every " +
	"referenced production is defined exactly once and every reachable production is defined, each production's body contains exactly " +
	"the multiset of literals, token references, production references and operators (~ ?= ?! ? * + !) computed independently from the " +
	"IR, and ebnf.ParseString(ast.String()) deep-equals ast; non-trivial = the grammar uses >=1 of ~ / lookahead / ! and >=1 modifier " +
	"applied to a group; distinct by SHA-256 of the grammar"

func safeCall(f func() (string, error)) (s string, err error, panicMsg string) {
	defer func() {
		if r := recover(); r != nil {
			panicMsg = fmt.Sprint(r)
		}
	}()
	s, err = f()
	return
}

// RunC14 checks Parser.String() of every grammar in the batch.
func RunC14(t *testing.T, registry map[int]func() (string, error), dataFile string) {
	r := vstat.For("C14")
	r.SetRule(c14Rule)
	data, err := os.ReadFile(dataFile)
	if err != nil {
		t.Fatalf("harness: %v", err)
	}
	var cases []*C14Case
	if err := json.Unmarshal(data, &cases); err != nil {
		t.Fatalf("harness: %v", err)
	}
	failed := false
	var all []*C14Case
	for _, c := range cases {
		all = append(all, c)
		if alt := altGrammar(c.G); alt != nil {
			all = append(all, &C14Case{ID: c.ID, G: alt, Text: "alt"})
		}
		all = append(all, &C14Case{ID: c.ID, G: c.G, Text: "unionroot"})
	}
	for _, c := range all {
		if failed {
			break
		}
		build := registry[c.ID]
		if c.Text == "alt" {
			build = registry[100000+c.ID]
			r.Count("second_parser_for_the_same_root_type")
		}
		if c.Text == "unionroot" {
			build = registry[200000+c.ID]
			r.Count("union_type_as_root")
		}
		// a fatal error (stack overflow inside the printer) kills the process: the journal names the grammar
		jc := *c
		jc.Text = c.G.String()
		r.Journal(&jc, "Build / Parser.String() / ebnf round trip of an emitted grammar")
		msg, sig := checkC14(r, c, build)
		r.JournalDone()
		if msg == "" {
			continue
		}
		if r.Known(sig) {
			r.Excluded(sig)
			continue
		}
		failed = true
		cc := *c
		cc.Text = c.G.String()
		b, _ := json.Marshal(cc)
		r.SaveFailure(&vstat.Failure{Property: "C14", Message: msg, Sig: sig, Case: b})
	}
	r.Flush()
	if failed {
		t.FailNow()
	}
}

func checkC14(r *vstat.Run, c *C14Case, build func() (string, error)) (msg, sig string) {
	if build == nil {
		return "", ""
	}
	prefix := fmt.Sprintf("G%d", c.ID)
	r.Eval()
	text, err, pm := safeCall(build)
	desc := func() string { return "\nEBNF:\n" + text + "\n\ngrammar:\n" + c.G.String() }
	if pm != "" {
		return "Build / Parser.String() panicked: " + pm + desc(), "panic"
	}
	if err != nil {
		r.Count("build_failed_left_to_C19")
		why := err.Error()
		if i := strings.LastIndex(why, ": "); i >= 0 {
			why = why[i+2:]
		}
		if len(why) > 48 {
			why = why[:48]
		}
		r.Count("build_failed: " + why)
		return "", ""
	}
	if i := strings.Index(text, "VERIF-STRING-CHANGED"); i >= 0 {
		return "Parser.String() of the grammar's parser changed after ParserForProduction was called for an inner production, or after the parser reported parse errors:\n" + text + "\n\ngrammar:\n" + c.G.String(), "string-changed"
	}
	nt1, nt2 := false, false
	for _, p := range c.G.Prods {
		p.Expr.Walk(func(e *gram.Expr) {
			if e.Kind == gram.KNeg || e.Kind == gram.KLook || (e.Kind == gram.KGroup && e.Mod == "!") {
				nt1 = true
			}
			if e.Kind == gram.KGroup && e.Mod != "" && !(e.Kids[0].Kind == gram.KLit || e.Kids[0].Kind == gram.KRef) {
				nt2 = true
			}
		})
	}
	if nt1 && nt2 {
		r.NonTrivial(c.G.String(), func() any {
			cc := *c
			cc.Text = c.G.String()
			return map[string]any{"grammar_text": cc.Text, "ebnf": text}
		})
	}
	ast, err := ebnf.ParseString(text)
	if err != nil {
		return fmt.Sprintf("the ebnf package does not parse Parser.String(): %v%s", err, desc()), "unparseable"
	}
	rootName := gram.RootName(prefix)
	if c.Text == "unionroot" {
		rootName = gram.UnionName(prefix, 0)
	}
	if len(ast.Productions) == 0 || ast.Productions[0].Production != rootName {
		return "the first production is not the root " + rootName + desc(), "root-first"
	}
	defined := map[string]int{}
	for _, p := range ast.Productions {
		defined[p.Production]++
	}
	for name, n := range defined {
		if n != 1 {
			return fmt.Sprintf("production %s is defined %d times%s", name, n, desc()), "defined-once"
		}
	}
	refs := map[string]int{}
	bodies := map[string]bag{}
	for _, p := range ast.Productions {
		b := bag{}
		if err := actualBag(p.Expression, b, refs); err != nil {
			return err.Error() + desc(), "literal"
		}
		bodies[p.Production] = b
	}
	for name := range refs {
		if userProductions[name] {
			continue // implemented by user code: referenced, never defined
		}
		if defined[name] != 1 {
			return fmt.Sprintf("production %s is referenced but defined %d times%s", name, defined[name], desc()), "defined-once"
		}
	}
	// completeness: every reachable production / union is defined with exactly the expected content
	prods, unions := reachable(c.G)
	want := map[string]bag{}
	if c.Text != "unionroot" {
		root := bag{}
		root.add("prod", gram.UnionName(prefix, 0))
		want[gram.RootName(prefix)] = root
	}
	for u := range unions {
		b := bag{}
		for _, m := range c.G.Unions[u].Members {
			b.add("prod", gram.ProdName(prefix, m))
		}
		want[gram.UnionName(prefix, u)] = b
	}
	for p := range prods {
		b := bag{}
		expectedBag(c.G, prefix, c.G.Prods[p], c.G.Prods[p].Expr, b)
		want[gram.ProdName(prefix, p)] = b
	}
	for name, wb := range want {
		gb, ok := bodies[name]
		if !ok {
			return fmt.Sprintf("production %s is reachable from the root but not defined in the EBNF%s", name, desc()), "missing-production"
		}
		if !reflect.DeepEqual(map[string]int(gb), map[string]int(wb)) {
			return fmt.Sprintf("production %s does not contain exactly the literals / references / operators of the grammar:\n EBNF has: %s\n grammar has: %s%s", name, gb, wb, desc()), "content"
		}
	}
	for name := range bodies {
		if _, ok := want[name]; !ok {
			return fmt.Sprintf("the EBNF defines %s, which the grammar does not reach%s", name, desc()), "extra-production"
		}
	}
	// round trip of the ebnf package's own printer
	printed := ast.String()
	again, err := ebnf.ParseString(printed)
	if err != nil {
		return fmt.Sprintf("printing the parsed EBNF tree gives text that does not parse: %v\nprinted:\n%s%s", err, printed, desc()), "roundtrip"
	}
	if !reflect.DeepEqual(ast, again) {
		return fmt.Sprintf("printing the parsed EBNF tree and parsing it again gives a different tree\nprinted:\n%s%s", printed, desc()), "roundtrip"
	}
	return "", ""
}
