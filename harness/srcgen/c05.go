// Package srcgen is engine E3, the compile stage: it emits throw-away Go packages (generated
// lexers produced by the `participle gen lexer` binary built from /repo/cmd/participle; grammars
// with named types) that the driver compiles once and runs.
package srcgen

import (
	"bytes"
	"encoding/hex"
	"encoding/json"
	"fmt"
	"io"
	"os"
	"os/exec"
	"path/filepath"
	"sort"
	"strings"
	"testing"
	"testing/iotest"
	"time"

	"github.com/alecthomas/participle/v2/lexer"

	"verifharness/lexgen"
	"verifharness/vstat"
)

// C05Def is one generated definition with its inputs.
type C05Def struct {
	ID       int             `json:"id"`
	RS       *lexgen.RuleSet `json:"rules"`
	InputHex []string        `json:"inputs_hex"`
	GenError string          `json:"gen_error,omitempty"` // generator exit != 0
}

// C05Case is the replayable form: one definition and one input.
type C05Case struct {
	RS       *lexgen.RuleSet `json:"rules"`
	InputHex string          `json:"input_hex"`
	Input    string          `json:"input,omitempty"` // informational (valid UTF-8 only)
	Text     string          `json:"rules_text,omitempty"`
}

// RulesJSON writes the rule map in the JSON form the generator reads (own emitter, independent of
// the library's marshaller).
func RulesJSON(rs *lexgen.RuleSet) []byte {
	type jaction struct {
		Kind  string `json:"kind"`
		State string `json:"state,omitempty"`
	}
	type jrule struct {
		Name    string   `json:"name,omitempty"`
		Pattern string   `json:"pattern,omitempty"`
		Action  *jaction `json:"action,omitempty"`
	}
	out := map[string][]jrule{}
	for _, st := range rs.States {
		out[st.Name] = []jrule{}
		for _, r := range st.Rules {
			jr := jrule{Name: r.Name, Pattern: r.Pattern}
			switch r.Action {
			case "push":
				jr.Action = &jaction{Kind: "push", State: r.Target}
			case "pop":
				jr.Action = &jaction{Kind: "pop"}
			case "include":
				jr = jrule{Action: &jaction{Kind: "include", State: r.Target}}
			case "return":
				jr = jrule{Name: "returnToParent"}
			}
			out[st.Name] = append(out[st.Name], jr)
		}
	}
	b, _ := json.Marshal(out)
	return b
}

// EmitC05 writes the package dir/<pkg> containing one generated lexer per definition, the case
// data and the test entry point. Definitions for which the generator fails are recorded in
// GenError and left out of the registry.
func EmitC05(dir, pkg, genBin string, defs []*C05Def) error {
	if err := os.MkdirAll(dir, 0o755); err != nil {
		return err
	}
	var reg []string
	for _, d := range defs {
		name := fmt.Sprintf("G%d", d.ID)
		out := filepath.Join(dir, fmt.Sprintf("g%d_gen.go", d.ID))
		if d.ID%3 == 0 {
			// regenerating is the normal use of --output: the file already holds the (longer) output of an earlier run,
			// none of which may survive
			stale := "package " + pkg + "\n\n" + strings.Repeat("stale_line_of_an_earlier_longer_output(\n", 20000)
			if err := os.WriteFile(out, []byte(stale), 0o644); err != nil {
				return err
			}
		}
		cmd := exec.Command(genBin, "gen", "lexer", pkg, "--name", name, "--output", out)
		cmd.Stdin = bytes.NewReader(RulesJSON(d.RS))
		var stderr bytes.Buffer
		cmd.Stderr = &stderr
		cmd.Stdout = &stderr
		done := make(chan error, 1)
		go func() { done <- cmd.Run() }()
		select {
		case err := <-done:
			if err != nil {
				d.GenError = fmt.Sprintf("%v: %s", err, firstLines(stderr.String(), 6))
				_ = os.Remove(out)
				continue
			}
		case <-time.After(60 * time.Second):
			_ = cmd.Process.Kill()
			d.GenError = "generator did not terminate within 60s"
			_ = os.Remove(out)
			continue
		}
		reg = append(reg, fmt.Sprintf("\t\t%d: %sLexer,", d.ID, name))
	}
	data, err := json.Marshal(defs)
	if err != nil {
		return err
	}
	if err := os.WriteFile(filepath.Join(dir, "cases.json"), data, 0o644); err != nil {
		return err
	}
	src := fmt.Sprintf(`package %s

import (
	"testing"

	"github.com/alecthomas/participle/v2/lexer"

	"verifharness/srcgen"
)

func TestRun(t *testing.T) {
	srcgen.RunC05(t, map[int]lexer.Definition{
%s
	}, "cases.json")
}
`, pkg, strings.Join(reg, "\n"))
	return os.WriteFile(filepath.Join(dir, "run_test.go"), []byte(src), 0o644)
}

func firstLines(s string, n int) string {
	lines := strings.Split(strings.TrimSpace(s), "\n")
	if len(lines) > n {
		lines = lines[:n]
	}
	return strings.Join(lines, " | ")
}

type lexOut struct {
	toks     []lexer.Token
	err      error
	panicMsg string
	hung     bool
	eofOK    bool
	eofMsg   string
}

// drain lexes the whole input, then calls Next a few more times (sticky EOF / no panic after error).
func drain(def lexer.Definition, in string, extra int) lexOut {
	var o lexOut
	done := make(chan struct{})
	go func() {
		defer close(done)
		defer func() {
			if r := recover(); r != nil {
				o.panicMsg = fmt.Sprint(r)
			}
		}()
		var l lexer.Lexer
		if sd, ok := def.(lexer.StringDefinition); ok {
			l, o.err = sd.LexString("f", in)
		} else {
			l, o.err = def.Lex("f", strings.NewReader(in))
		}
		if o.err != nil {
			return
		}
		var eof *lexer.Token
		for {
			tk, err := l.Next()
			if err != nil {
				o.err = err
				break
			}
			o.toks = append(o.toks, tk)
			if tk.EOF() {
				eof = &tk
				break
			}
			if len(o.toks) > len(in)+4 {
				o.err = fmt.Errorf("harness: more tokens than input bytes")
				return
			}
		}
		o.eofOK = true
		for i := 0; i < extra; i++ {
			// another lexer of the definition is opened on another text and advanced in between
			if ol, oerr := def.Lex("other", strings.NewReader("a1 ("+in)); oerr == nil {
				_, _ = ol.Next()
				_, _ = ol.Next()
			}
			tk, err := l.Next()
			if eof != nil && (err != nil || !tk.EOF() || tk.Pos != eof.Pos) {
				o.eofOK = false
				o.eofMsg = fmt.Sprintf("call %d after EOF returned (%#v, %v)", i+1, tk, err)
			}
		}
	}()
	select {
	case <-done:
	case <-time.After(20 * time.Second):
		o.hung = true
	}
	return o
}

func errOffset(err error) (lexer.Position, bool) {
	type positioned interface{ Position() lexer.Position }
	if p, ok := err.(positioned); ok {
		return p.Position(), true
	}
	return lexer.Position{}, false
}

func symsString(m map[string]lexer.TokenType) string {
	keys := make([]string, 0, len(m))
	for k := range m {
		keys = append(keys, k)
	}
	sort.Strings(keys)
	var sb strings.Builder
	for _, k := range keys {
		fmt.Fprintf(&sb, "%s=%d ", k, m[k])
	}
	return sb.String()
}

const c05Rule = "generated rule sets restricted to the generator's documented class (no back-references, no non-greedy operators, no rule " +
	"that can match the empty string; literals, classes, ., anchors and word boundaries, captures, * + ? {n,m}, alternation, (?i), " +
	"multi-state Push/Pop/Return/Include, lower-case rules), each turned into Go source by the `participle gen lexer` binary built from " +
	"/repo, compiled in one batch, and run against the runtime lexer on inputs walked through the state machine (incl. inputs ending " +
	"mid-pattern, multi-byte and invalid UTF-8); oracle: generator exit 0, the batch compiles, Symbols() equal, identical (type, text, " +
	"position) streams incl. elision and EOF, or an error at the same position; an input is tolerated (counted, not judged) iff the " +
	"possessive matcher and backtracking regexp disagree on a rule tried at an offset the runtime lexer reached; generated tokens are " +
	"also validated against the input text (C04) and for progress / sticky EOF / no panic (C07); non-trivial = >=3 tokens and a " +
	"repetition or alternation in a matched rule and not tolerated; distinct by SHA-256 of (rules, input)"

// RunC05 compares every generated lexer of the batch with the runtime lexer.
func RunC05(t *testing.T, registry map[int]lexer.Definition, dataFile string) {
	if os.Getenv("VERIF_AS_PROP") == "C04" {
		runC04Generated(t, registry, dataFile)
		return
	}
	if os.Getenv("VERIF_AS_PROP") == "C07" {
		runC07Generated(t, registry, dataFile)
		return
	}
	r := vstat.For("C05")
	r.SetRule(c05Rule)
	data, err := os.ReadFile(dataFile)
	if err != nil {
		t.Fatalf("harness: %v", err)
	}
	var defs []*C05Def
	if err := json.Unmarshal(data, &defs); err != nil {
		t.Fatalf("harness: %v", err)
	}
	failed := false
	fail := func(d *C05Def, inHex, msg string) {
		failed = true
		in, _ := hex.DecodeString(inHex)
		c := C05Case{RS: d.RS, InputHex: inHex, Text: d.RS.String()}
		if strings.ToValidUTF8(string(in), "�") == string(in) {
			c.Input = string(in)
		}
		b, _ := json.Marshal(c)
		r.SaveFailure(&vstat.Failure{Property: "C05", Message: msg, Case: b})
	}
	for _, d := range defs {
		if failed {
			break
		}
		r.Count("definitions")
		if d.GenError != "" {
			fail(d, "", fmt.Sprintf("the lexer generator failed for a definition of the supported class: %s\n%s", d.GenError, d.RS.String()))
			break
		}
		gen, ok := registry[d.ID]
		if !ok {
			continue
		}
		rt, err := lexer.New(d.RS.ToRules())
		if err != nil {
			r.Count("definition_rejected_by_constructor")
			continue
		}
		if a, b := symsString(rt.Symbols()), symsString(gen.Symbols()); a != b {
			fail(d, "", fmt.Sprintf("symbol tables differ:\n runtime   %s\n generated %s\n%s", a, b, d.RS.String()))
			break
		}
		for _, inHex := range d.InputHex {
			raw, _ := hex.DecodeString(inHex)
			in := string(raw)
			// tolerated? possessive vs backtracking on any rule tried at a reached offset
			tolerated, unsupported := false, false
			repOrAlt := false
			ref := lexgen.RefLexTried(d.RS, in, func(off int, ru lexgen.RuleSpec, pat, rest string) {
				pe, ok := lexgen.Possessive(pat, rest)
				if !ok {
					unsupported = true
					return
				}
				be := -1
				if re, err := lexgen.Compile(pat); err == nil {
					if loc := re.FindStringIndex(rest); loc != nil && loc[0] == 0 {
						be = loc[1]
					}
				}
				if pe != be {
					tolerated = true
				}
				if be > 0 && strings.ContainsAny(pat, "*+?|{") {
					repOrAlt = true
				}
			})
			if unsupported {
				r.Count("skipped_unsupported_pattern")
				continue
			}
			if ref.Underflow {
				// Pop/Return with nothing to return to: both lexers must report an error (the statement demands
				// "an error at the same position"); handled by the generic comparison below
				r.Count("pop_or_return_in_initial_state")
			}
			extra := 2
			g := drain(gen, in, extra)
			u := drain(rt, in, extra)
			r.Eval()
			desc := func() string { return fmt.Sprintf("input %q\n%s", in, d.RS.String()) }
			if g.hung {
				fail(d, inHex, "the generated lexer did not return within 20s\n"+desc())
				break
			}
			if g.panicMsg != "" {
				fail(d, inHex, "the generated lexer panicked: "+g.panicMsg+"\n"+desc())
				break
			}
			if u.panicMsg != "" || u.hung {
				r.Count("runtime_lexer_panicked_or_hung_left_to_C07")
				continue
			}
			if g.err == nil {
				if errs := lexgen.ValidateTokens(in, "f", g.toks, !d.RS.HasLowerCase()); len(errs) > 0 {
					fail(d, inHex, "generated lexer: tokens are not consistent with the input text: "+strings.Join(errs, "; ")+"\n"+desc())
					break
				}
				if !g.eofOK {
					fail(d, inHex, "generated lexer: EOF is not sticky: "+g.eofMsg+"\n"+desc())
					break
				}
			}
			for _, tk := range g.toks {
				if !tk.EOF() && tk.Value == "" {
					fail(d, inHex, "generated lexer emitted an empty non-EOF token\n"+desc())
					break
				}
			}
			if failed {
				break
			}
			if tolerated {
				r.Count("tolerated_possessive_vs_backtracking")
				continue
			}
			if len(u.toks) >= 3 && repOrAlt {
				r.NonTrivial(inHex+"|"+d.RS.String(), func() any {
					c := C05Case{RS: d.RS, InputHex: inHex, Text: d.RS.String()}
					if strings.ToValidUTF8(in, "�") == in {
						c.Input = in
					}
					return c
				})
			}
			if u.err != nil {
				r.Count("runtime_reports_error")
			}
			if ref.StatesSeen >= 2 {
				r.Count("multi_state")
			}
			// differential
			if (g.err == nil) != (u.err == nil) {
				fail(d, inHex, fmt.Sprintf("runtime lexer: err=%v (%d tokens); generated lexer: err=%v (%d tokens)\n%s", u.err, len(u.toks), g.err, len(g.toks), desc()))
				break
			}
			if u.err != nil {
				up, ok1 := errOffset(u.err)
				gp, ok2 := errOffset(g.err)
				if !ok1 || !ok2 || up != gp {
					fail(d, inHex, fmt.Sprintf("errors at different positions: runtime %v (%v), generated %v (%v)\n%s", up, u.err, gp, g.err, desc()))
					break
				}
			}
			if len(g.toks) != len(u.toks) {
				fail(d, inHex, fmt.Sprintf("token streams differ in length: runtime %d, generated %d\n runtime   %s\n generated %s\n%s", len(u.toks), len(g.toks), fmtToks(rt, u.toks), fmtToks(gen, g.toks), desc()))
				break
			}
			for i := range g.toks {
				if g.toks[i] != u.toks[i] {
					fail(d, inHex, fmt.Sprintf("token %d differs: runtime %#v, generated %#v\n runtime   %s\n generated %s\n%s", i, u.toks[i], g.toks[i], fmtToks(rt, u.toks), fmtToks(gen, g.toks), desc()))
					break
				}
			}
			if failed {
				break
			}
		}
		// LexBytes of the generated lexer: the buffer is the caller's and is overwritten once the lexer exists
		if bd, ok := gen.(lexer.BytesDefinition); ok {
			for i := 0; !failed && i < len(d.InputHex) && i < 4; i++ {
				raw, _ := hex.DecodeString(d.InputHex[i])
				in := string(raw)
				want := drain(gen, in, 0)
				if want.hung || want.panicMsg != "" {
					break
				}
				var got lexOut
				func() {
					defer func() {
						if rec := recover(); rec != nil {
							got.panicMsg = fmt.Sprint(rec)
						}
					}()
					buf := []byte(in)
					l, err := bd.LexBytes("f", buf)
					for j := range buf {
						buf[j] = '#'
					}
					if err != nil {
						got.err = err
						return
					}
					for {
						tk, err := l.Next()
						if err != nil {
							got.err = err
							return
						}
						got.toks = append(got.toks, tk)
						if tk.EOF() || len(got.toks) > len(in)+4 {
							return
						}
					}
				}()
				r.Count("lexbytes_then_buffer_reused")
				same := got.panicMsg == "" && fmt.Sprint(got.err) == fmt.Sprint(want.err) && len(got.toks) == len(want.toks)
				for j := 0; same && j < len(got.toks); j++ {
					same = got.toks[j] == want.toks[j]
				}
				if !same {
					fail(d, d.InputHex[i], fmt.Sprintf("generated lexer: LexBytes, after the caller overwrote its buffer, yields %d tokens (err %v, panic %q); LexString yields %d tokens (err %v)\ninput %q\n%s", len(got.toks), got.err, got.panicMsg, len(want.toks), want.err, in, d.RS.String()))
				}
			}
		}
		// the reader entry point of the generated lexer, with a reader the caller has already read from
		for i := 0; !failed && i < len(d.InputHex) && i < 6; i++ {
			raw, _ := hex.DecodeString(d.InputHex[i])
			in := string(raw)
			want := drain(gen, in, 0)
			if want.hung || want.panicMsg != "" {
				break
			}
			var got lexOut
			func() {
				defer func() {
					if rec := recover(); rec != nil {
						got.panicMsg = fmt.Sprint(rec)
					}
				}()
				rd := strings.NewReader("already read\n" + in)
				_, _ = io.CopyN(io.Discard, rd, int64(len("already read\n")))
				var src io.Reader = rd
				if i%2 == 1 {
					src = iotest.DataErrReader(rd) // the last bytes arrive together with io.EOF
				}
				l, err := gen.Lex("f", src)
				if err != nil {
					got.err = err
					return
				}
				for {
					tk, err := l.Next()
					if err != nil {
						got.err = err
						return
					}
					got.toks = append(got.toks, tk)
					if tk.EOF() || len(got.toks) > len(in)+4 {
						return
					}
				}
			}()
			r.Count("reader_entry_point_cases")
			same := got.panicMsg == "" && fmt.Sprint(got.err) == fmt.Sprint(want.err) && len(got.toks) == len(want.toks)
			for j := 0; same && j < len(got.toks); j++ {
				same = got.toks[j] == want.toks[j]
			}
			if !same {
				fail(d, d.InputHex[i], fmt.Sprintf("the generated lexer's Lex(reader), given a reader that had been read from, yields %s err=%v panic=%q; LexString of what was left yields %s err=%v\ninput %q\n%s",
					fmtToks(gen, got.toks), got.err, got.panicMsg, fmtToks(gen, want.toks), want.err, in, d.RS.String()))
			}
		}
		// several live lexers of the definition, on different inputs
		for at := 0; !failed && at+1 < len(d.InputHex); at += 4 {
			var ins []string
			for _, h := range d.InputHex[at:min(at+4, len(d.InputHex))] {
				raw, _ := hex.DecodeString(h)
				ins = append(ins, string(raw))
			}
			r.Count("interleaved_lexer_groups")
			if m := interleaved(gen, ins); m != "" {
				fail(d, d.InputHex[at], m+"\n"+d.RS.String())
			}
		}
	}
	r.Flush()
	if failed {
		t.FailNow()
	}
}

// interleaved drains several lexers of one generated definition in turns and out of step (lexer i takes i%3+1 tokens
// per turn) and compares each stream with what the same generated lexer yields alone: lexers of one definition
// must not share mutable state. It returns a description of the first difference.
func interleaved(gen lexer.Definition, ins []string) string {
	type stream struct {
		toks []lexer.Token
		err  error
	}
	alone := make([]lexOut, len(ins))
	for i, in := range ins {
		alone[i] = drain(gen, in, 0)
		if alone[i].hung || alone[i].panicMsg != "" {
			return "" // reported by the per-input comparison
		}
	}
	msg := ""
	done := make(chan struct{})
	go func() {
		defer close(done)
		defer func() {
			if r := recover(); r != nil {
				msg = fmt.Sprintf("lexers drained in turns panicked: %v", r)
			}
		}()
		ls := make([]lexer.Lexer, len(ins))
		got := make([]stream, len(ins))
		fin := make([]bool, len(ins))
		for i, in := range ins {
			var err error
			if sd, ok := gen.(lexer.StringDefinition); ok {
				ls[i], err = sd.LexString("f", in)
			} else {
				ls[i], err = gen.Lex("f", strings.NewReader(in))
			}
			if err != nil {
				got[i].err, fin[i] = err, true
			}
		}
		for live := 1; live > 0; {
			live = 0
			for i, l := range ls {
				for k := 0; k <= i%3 && !fin[i]; k++ {
					tk, err := l.Next()
					if err != nil {
						got[i].err, fin[i] = err, true
						break
					}
					got[i].toks = append(got[i].toks, tk)
					if tk.EOF() || len(got[i].toks) > len(ins[i])+4 {
						fin[i] = true
					}
				}
				if !fin[i] {
					live++
				}
			}
		}
		for i := range ins {
			same := len(got[i].toks) == len(alone[i].toks) && fmt.Sprint(got[i].err) == fmt.Sprint(alone[i].err)
			for j := 0; same && j < len(got[i].toks); j++ {
				same = got[i].toks[j] == alone[i].toks[j]
			}
			if !same {
				msg = fmt.Sprintf("%d lexers of one generated definition were alive and drained in turns; on input %q the lexer yields %s err=%v, alone it yields %s err=%v",
					len(ins), ins[i], fmtToks(gen, got[i].toks), got[i].err, fmtToks(gen, alone[i].toks), alone[i].err)
				return
			}
		}
	}()
	select {
	case <-done:
	case <-time.After(20 * time.Second):
		return "lexers drained in turns did not finish within 20s"
	}
	return msg
}

func fmtToks(def lexer.Definition, ts []lexer.Token) string {
	syms := lexer.SymbolsByRune(def)
	var sb strings.Builder
	for _, t := range ts {
		fmt.Fprintf(&sb, "%s%q@%d ", syms[t.Type], t.Value, t.Pos.Offset)
	}
	return sb.String()
}

const c04GenRule = "generated lexers (compile stage shared with C05): definitions of the generator's supported class x inputs walked through the " +
	"state machine; every successful token stream of the generated lexer is validated against the input text alone (values, offsets, " +
	"order, final EOF, concatenation when nothing is dropped, line/column recomputed from the offset, filename); non-trivial = >=2 lines, " +
	">=1 multi-byte rune, >=3 tokens"

const c07GenRule = "generated lexers (compile stage shared with C05): definitions of the generator's supported class (Pop/Return reachable in the " +
	"initial state included) x inputs walked through the state machine, noise and truncations x 3 further Next calls; oracle: every call " +
	"returns within the 20 s watchdog without panicking, non-EOF tokens are non-empty, at most len(input) tokens, EOF is sticky at the same " +
	"position; non-trivial = the lexer changed state or reported an error or emitted >= 3 tokens"

// runC07Generated applies C07's totality oracle to the generated lexers of a batch.
func runC07Generated(t *testing.T, registry map[int]lexer.Definition, dataFile string) {
	r := vstat.For("C07")
	r.SetRule(c07GenRule)
	data, err := os.ReadFile(dataFile)
	if err != nil {
		t.Fatalf("harness: %v", err)
	}
	var defs []*C05Def
	if err := json.Unmarshal(data, &defs); err != nil {
		t.Fatalf("harness: %v", err)
	}
	failed := false
	for _, d := range defs {
		gen, ok := registry[d.ID]
		if !ok || failed {
			continue
		}
		r.Count("generated_lexers")
		for _, inHex := range d.InputHex {
			raw, _ := hex.DecodeString(inHex)
			in := string(raw)
			g := drain(gen, in, 3)
			r.Eval()
			r.Count("kind_generated")
			msg := ""
			switch {
			case g.hung:
				msg = "a call did not return within 20s"
			case g.panicMsg != "":
				msg = "panic: " + g.panicMsg
			case g.err != nil && strings.HasPrefix(g.err.Error(), "harness: more tokens"):
				msg = "more tokens than input bytes"
			case g.err == nil && !g.eofOK:
				msg = "EOF is not sticky: " + g.eofMsg
			}
			if msg == "" {
				for _, tk := range g.toks {
					if !tk.EOF() && tk.Value == "" {
						msg = fmt.Sprintf("empty non-EOF token at offset %d", tk.Pos.Offset)
						break
					}
				}
			}
			if g.err != nil {
				r.Count("generated_reports_error")
			}
			if g.err != nil || len(g.toks) >= 3 {
				r.NonTrivial(inHex+"|"+d.RS.String(), func() any {
					return map[string]any{"kind": "generated", "rules_text": d.RS.String(), "input_hex": inHex}
				})
			}
			if msg != "" {
				failed = true
				c := map[string]any{"kind": "generated", "rules": d.RS, "input_hex": inHex, "extra_next": 3, "rules_text": d.RS.String()}
				b, _ := json.Marshal(c)
				r.SaveFailure(&vstat.Failure{Property: "C07", Message: fmt.Sprintf("generated lexer, input %q: %s\n%s", in, msg, d.RS.String()), Case: b})
				break
			}
		}
	}
	r.Flush()
	if failed {
		t.FailNow()
	}
}

// runC04Generated applies C04's validity predicate to the generated lexers of a batch.
func runC04Generated(t *testing.T, registry map[int]lexer.Definition, dataFile string) {
	r := vstat.For("C04")
	r.SetRule(c04GenRule)
	data, err := os.ReadFile(dataFile)
	if err != nil {
		t.Fatalf("harness: %v", err)
	}
	var defs []*C05Def
	if err := json.Unmarshal(data, &defs); err != nil {
		t.Fatalf("harness: %v", err)
	}
	failed := false
	for _, d := range defs {
		gen, ok := registry[d.ID]
		if !ok || failed {
			continue
		}
		r.Count("generated_lexers")
		for _, inHex := range d.InputHex {
			raw, _ := hex.DecodeString(inHex)
			in := string(raw)
			g := drain(gen, in, 0)
			if g.hung || g.panicMsg != "" || g.err != nil {
				r.Count("generated_lexing_failed_not_judged")
				continue
			}
			r.Eval()
			r.Count("kind_generated")
			multiByte := strings.ToValidUTF8(in, "") != in || len([]rune(in)) != len(in)
			if strings.Contains(in, "\n") && multiByte && len(g.toks) >= 3 {
				r.NonTrivial(inHex+"|"+d.RS.String(), func() any {
					return map[string]any{"kind": "generated", "rules_text": d.RS.String(), "input_hex": inHex}
				})
			}
			errs := lexgen.ValidateTokens(in, "f", g.toks, !d.RS.HasLowerCase())
			if bd, ok := gen.(lexer.BytesDefinition); ok && len(errs) == 0 {
				// the same through LexBytes; the tokens stay what they were when the caller reuses its buffer afterwards
				buf := []byte(in)
				if l, err := bd.LexBytes("f", buf); err == nil {
					toks, err := lexer.ConsumeAll(l)
					for i := range buf {
						buf[i] = '#'
					}
					if err == nil {
						r.Count("lexbytes_then_buffer_reused")
						errs = lexgen.ValidateTokens(in, "f", toks, !d.RS.HasLowerCase())
						for i := range errs {
							errs[i] = "LexBytes, after the caller overwrote its buffer: " + errs[i]
						}
					}
				}
			}
			if len(errs) == 0 {
				// ... and through the reader entry point
				if l, err := gen.Lex("f", iotest.DataErrReader(strings.NewReader(in))); err == nil {
					if toks, err := lexer.ConsumeAll(l); err == nil {
						r.Count("reader_entry_point")
						errs = lexgen.ValidateTokens(in, "f", toks, !d.RS.HasLowerCase())
						for i := range errs {
							errs[i] = "Lex(reader): " + errs[i]
						}
					}
				}
			}
			if len(errs) > 0 {
				failed = true
				c := map[string]any{"kind": "generated", "rules": d.RS, "input_hex": inHex, "filename": "f", "entry": "string", "rules_text": d.RS.String()}
				b, _ := json.Marshal(c)
				r.SaveFailure(&vstat.Failure{Property: "C04", Message: fmt.Sprintf("generated lexer, input %q: %s\n%s", in, strings.Join(errs, "; "), d.RS.String()), Case: b})
				break
			}
		}
	}
	r.Flush()
	if failed {
		t.FailNow()
	}
}
