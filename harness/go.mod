module verifharness

go 1.23

require (
	github.com/alecthomas/participle/v2 v2.1.1
	pgregory.net/rapid v1.3.0
)

replace github.com/alecthomas/participle/v2 => /repo
